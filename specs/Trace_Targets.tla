------------------------------- MODULE Trace_Targets -------------------------------
(* Trace validation against Targets.tla: one event = one real `reuse annotate` on a   *)
(* cell of the decision table (the target file next to an ordinary second file).      *)
(*   e.c [kind, sib, mode, style]   e.exit   e.crash                                  *)
(*   e.where   : "infile" | "sibling" | "both" | "none"  (what changed / was created) *)
(*   e.other   : "annotated" | "untouched"   (the second file of the invocation)      *)
(*   e.outside : TRUE iff anything outside the project changed (link targets)         *)
EXTENDS Targets, IOUtils, TLCExt
Tr == ndJsonDeserialize(IOEnv.TRACE_FILE)
VARIABLE l
StatusOf(e) == CASE e.exit = 2 -> "usage" [] e.exit = 1 -> "error" [] e.where = "none" -> "skipped" [] OTHER -> "ok"
Clauses(e) ==
   LET c == e.c
       m == MDest(c)
       o == Out(e.where, StatusOf(e))
       c15 == IF e.outside THEN "C15.annotate-wrote-through-a-symbolic-link"
              ELSE IF e.where = "both" THEN "C15.header-written-to-the-file-and-to-its-sibling" ELSE ""
       c11 == IF e.exit \notin {0, 1, 2} THEN "C11.undocumented-exit-status"
              ELSE IF e.exit # ExitOf(c) THEN "C11.exit-status-is-not-the-one-of-the-decision-table"
              ELSE IF e.exit = 2 /\ (e.where # "none" \/ e.other # "untouched") THEN "C11.usage-error-after-touching-files"
              ELSE IF e.exit # 2 /\ e.other # "annotated" THEN "C11.other-file-of-the-invocation-was-not-processed"
              ELSE IF e.exit = 1 /\ e.where # "none" THEN "C11.failed-annotation-left-a-trace"
              ELSE ""
       c07 == IF e.where \in {"infile", "sibling", "none"} /\ o # m THEN "C07.header-is-not-where-the-decision-table-puts-it"
              ELSE IF e.where \in {"infile", "sibling", "none"} /\ ~Rules(c, o) THEN "C07.outcome-breaks-a-rule-of-the-table"
              ELSE ""
   IN  IF e.crash # "" THEN {"crash"} ELSE {x \in {c15, c11, c07} : x # ""}
KnownFinding(e, c) == ""
TInit == l = 1 /\ phase = "start" /\ cell = CHOOSE c \in Cells : TRUE
TNext == /\ l <= Len(Tr)
         /\ LET e == Tr[l]
            IN  \A x \in Clauses(e) : PrintT(<<"REJECT", e.tid, 0, x, KnownFinding(e, x), e.label>>)
         /\ l' = l + 1 /\ UNCHANGED vars
=====================================================================================
