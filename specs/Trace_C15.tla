--------------------------------- MODULE Trace_C15 ---------------------------------
(* Trace validation for C15: one event per command of a command sequence on a real     *)
(* tree; snapshots (type, size, mode, mtime, hash, link target) of the project and of  *)
(* a sentinel directory outside it are compared around every command.                  *)
(*   e.cmd [kind, targets, out]   e.covered (covered files before the command)         *)
(*   e.symlinks (project paths that are links)                                         *)
(*   e.changed / e.created / e.removed : project paths whose snapshot differs          *)
(*   e.sentinel : outside paths whose snapshot differs                                 *)
EXTENDS Footprint, Json, IOUtils, TLC, TLCExt
Tr == ndJsonDeserialize(IOEnv.TRACE_FILE)
VARIABLE l
SeqSet(s) == {s[i] : i \in 1..Len(s)}
Cmd(e) == [kind |-> e.cmd.kind, targets |-> SeqSet(e.cmd.targets), out |-> e.cmd.out]
(* KF-C15-1 (none open): -- *)
Verdict(e) ==
   LET fp == FootprintOf(Cmd(e), SeqSet(e.covered), SeqSet(e.symlinks))
       touched == SeqSet(e.changed) \cup SeqSet(e.created) \cup SeqSet(e.removed)
   IN  IF e.crash # "" THEN "crash"
       ELSE IF e.sentinel # <<>> THEN "C15.wrote-outside-the-project-through-a-symlink"
       ELSE IF ~(touched \subseteq fp) THEN
            (IF Cmd(e).kind \in Readers THEN "C15.read-only-command-changed-the-tree" ELSE "C15.touched-a-path-outside-its-footprint")
       ELSE IF ~MayModifyExisting(Cmd(e)) /\ (e.changed # <<>> \/ e.removed # <<>>) THEN "C15.download-altered-an-existing-file"
       ELSE ""
KnownFinding(e, c) == ""
TInit == l = 1
TNext == /\ l <= Len(Tr)
         /\ LET e == Tr[l]
                c == Verdict(e)
            IN  IF c = "" THEN TRUE ELSE PrintT(<<"REJECT", e.tid, e.k, c, KnownFinding(e, c), <<e.label, e.changed, e.created, e.removed, e.sentinel>>>>)
         /\ l' = l + 1
=================================================================================
