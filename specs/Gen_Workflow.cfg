CONSTANTS
  Files = {"a.py", "src/b.c", "docs/c.md"}
  Lics = {"MIT", "0BSD", "LicenseRef-x"}
  GlobFiles = {"docs/c.md"}
  GlobLic = "0BSD"
  MaxCmds = 4
  InitPick = "all"
INIT Init
NEXT GenNext
INVARIANT Emit
CHECK_DEADLOCK FALSE
