CONSTANTS
  Terminators <- TerminatorSet
  SampleN = 0
SPECIFICATION Spec
INVARIANT Emit
CHECK_DEADLOCK FALSE
