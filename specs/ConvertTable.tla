-------------------------------- MODULE ConvertTable --------------------------------
(* The preconditions of `reuse convert-dep5` as a decision table over                    *)
(*   dep5 : what .reuse/dep5 is - absent, a valid file, a symbolic link to a valid file   *)
(*          outside the project, a dangling link, a directory, a file that does not       *)
(*          parse, a file that is not UTF-8                                               *)
(*   toml : what stands where REUSE.toml goes - nothing, a REUSE.toml, a directory, a     *)
(*          symbolic link to a file outside, a dangling link; or a REUSE.toml further     *)
(*          down in the tree                                                              *)
(* R: the command converts exactly when there is a dep5 to convert and no REUSE.toml      *)
(* anywhere that it would replace or conflict with (manual page, C15: only .reuse/dep5    *)
(* is replaced by REUSE.toml, nothing is written through a link; C16: a broken or         *)
(* contradictory configuration is a usage error; C17: it refuses without a dep5);         *)
(* otherwise it refuses with exit status 2 and changes nothing.                           *)
(* M transcribes Project.find_global_licensing + cli/convert_dep5.py.                     *)
EXTENDS Naturals, Sequences, FiniteSets, TLC, Json
Dep5s == {"absent", "file", "link", "dangling", "dir", "invalid", "not-utf8"}
Tomls == {"absent", "file", "dir", "link", "dangling", "nested"}
Cells == [dep5 : Dep5s, toml : Tomls]

ROutcome(c) == IF c.dep5 \in {"file", "link"} /\ c.toml = "absent" THEN "converted" ELSE "refused"

(* M, in the order of the code *)
Dep5Exists(c)  == c.dep5 \in {"file", "link", "dir", "invalid", "not-utf8"}        \* Path.exists() follows links
TomlFound(c)   == c.toml \in {"file", "nested"}                                       \* the walk yields regular files called REUSE.toml, never links or directories
LoadProject(c) == IF Dep5Exists(c) /\ TomlFound(c) THEN "conflict"
                  ELSE IF c.dep5 \in {"dir", "invalid", "not-utf8"} THEN "unreadable-dep5"
                  ELSE "ok"
MOutcome(c) == IF LoadProject(c) # "ok" THEN "refused"                                \* usage error while the project is loaded
               ELSE IF ~Dep5Exists(c) THEN "refused"                                   \* "No '.reuse/dep5' file."
               ELSE IF c.toml # "absent" THEN "refused"                                \* lexists(REUSE.toml): never overwritten, never written through
               ELSE "converted"

VARIABLES cell, phase
vars == <<cell, phase>>
Init == phase = "start" /\ cell = CHOOSE c \in Cells : TRUE
Next == phase = "start" /\ phase' = "cell" /\ cell' \in Cells
Spec == Init /\ [][Next]_vars
MechanismMeetsRequirement == phase = "cell" => MOutcome(cell) = ROutcome(cell)
Emit == phase = "cell" => PrintT(ToJson([c |-> cell, outcome |-> ROutcome(cell)]))
=====================================================================================
