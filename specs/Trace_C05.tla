-------------------------------- MODULE Trace_C05 --------------------------------
(* Direct (bounded) conformance for C05: recorded answers of the real              *)
(* AnnotationsItem.matches() / of `reuse lint --json` on concrete paths are judged *)
(* by R's two readings evaluated by TLC:  Narrow => observed => Wide.              *)
EXTENDS Glob, Json, IOUtils, TLC, TLCExt
Tr == ndJsonDeserialize(IOEnv.TRACE_FILE)
VARIABLE l

(* event: tid, globs, paths, obs (BOOLEAN per path), via ("api" | "lint"), impl (items or <<>>) *)
NarrowAny(gs, p) == \E j \in 1..Len(gs) : Matches(Narrow(gs[j]), p)
WideAny(gs, p)   == \E j \in 1..Len(gs) : Matches(Wide(gs[j]), p)

Bad(e) == { i \in 1..Len(e.paths) :
              \/ (NarrowAny(e.globs, e.paths[i]) /\ ~e.obs[i])
              \/ (e.obs[i] /\ ~WideAny(e.globs, e.paths[i])) }
BindingDrift(e) == { i \in 1..Len(e.paths) : e.impl # <<>> /\ e.obs[i] # MatchesAny(e.impl, e.paths[i]) }

TInit == l = 1
TNext == /\ l <= Len(Tr)
         /\ LET e == Tr[l]
                b == Bad(e)
                d == BindingDrift(e)
            IN  /\ IF b = {} THEN TRUE
                   ELSE LET i == CHOOSE i \in b : \A j \in b : i <= j
                        IN  PrintT(<<"REJECT", e.tid, 0,
                                     IF e.obs[i] THEN "C05.nothing-outside" ELSE "C05.nothing-missed",
                                     "", <<e.globs, e.paths[i], e.via>>>>)
                /\ IF d = {} THEN TRUE
                   ELSE PrintT(<<"BINDING", e.tid, e.globs, e.paths[CHOOSE i \in d : TRUE]>>)
         /\ l' = l + 1
=================================================================================
