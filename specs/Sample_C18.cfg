CONSTANTS
  SampleN = 50
SPECIFICATION SampleSpec
CONSTRAINT SampleBound
INVARIANT Emit
INVARIANT EquivReflexive
CHECK_DEADLOCK FALSE
