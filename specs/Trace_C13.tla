--------------------------------- MODULE Trace_C13 ---------------------------------
(* C13 - every lint output format and lint-file tell the same story.               *)
(*                                                                                 *)
(* One event = one project state observed through five invocations:                *)
(*   e.json   projected `lint --json`  (module Trace_Project's obs record)          *)
(*   e.plain  <<[label, items]>>   paragraphs of `lint --plain` before the summary; *)
(*            an item is a path / identifier, or "id|path" for grouped sections     *)
(*   e.lines  <<[label, item]>>    one per line of `lint --lines`                   *)
(*   e.exits  [json, plain, lines, quiet], e.quietlen                               *)
(*   e.lintfile <<[args : <<path>>, out : <<[label, item]>>, exit]>>                *)
(*   e.covered  paths the project's lint examined (json files + read errors)        *)
(*   e.licpath  [id |-> path of its LICENSES/ file]                                 *)
(* Labels are opaque: R asks for SOME assignment of labels to categories under     *)
(* which the item sets coincide - expressed as equality of the two families of     *)
(* item sets.                                                                      *)
EXTENDS Naturals, Sequences, FiniteSets, Json, IOUtils, TLC, TLCExt
Tr == ndJsonDeserialize(IOEnv.TRACE_FILE)
VARIABLE l

SeqSet(s) == {s[i] : i \in 1..Len(s)}
Pairs(s)  == UNION {{s[i].id \o "|" \o pth : pth \in SeqSet(s[i].paths)} : i \in 1..Len(s)}
NonEmpty(F) == {S \in F : S # {}}

(* categories of the JSON report, as item sets *)
J(e) == e.json
Both(e)    == SeqSet(J(e).nocop) \cap SeqSet(J(e).nolic)
CopOnly(e) == SeqSet(J(e).nocop) \ Both(e)
LicOnly(e) == SeqSet(J(e).nolic) \ Both(e)
LicPaths(e, ids) == {e.licpath[id] : id \in ids}
PlainSeq(e) ==
   <<Pairs(J(e).bad), SeqSet(J(e).deprecated), SeqSet(J(e).noext), Pairs(J(e).missing),
     SeqSet(J(e).unused), SeqSet(J(e).readerr), Both(e), CopOnly(e), LicOnly(e)>>
LinesSeq(e) ==
   <<Pairs(J(e).bad), LicPaths(e, SeqSet(J(e).deprecated)), LicPaths(e, SeqSet(J(e).noext)),
     Pairs(J(e).missing), LicPaths(e, SeqSet(J(e).unused)), SeqSet(J(e).readerr),
     SeqSet(J(e).nolic), SeqSet(J(e).nocop)>>
PlainFamily(e) == NonEmpty(SeqSet(PlainSeq(e)))
LinesFamily(e) == NonEmpty(SeqSet(LinesSeq(e)))
CountNonEmpty(sq) == Cardinality({i \in 1..Len(sq) : sq[i] # {}})

Labels(s) == {s[i].label : i \in 1..Len(s)}
PlainObs(e) == {SeqSet(e.plain[i].items) : i \in 1..Len(e.plain)}
LinesObs(e) == {{e.lines[i].item : i \in {i \in 1..Len(e.lines) : e.lines[i].label = lb}} : lb \in Labels(e.lines)}

(* lint-file: the per-file problems of the covered files among the arguments *)
Restrict(S, F) == {x \in S : x \in F}
PairsIn(s, F) == UNION {{s[i].id \o "|" \o pth : pth \in SeqSet(s[i].paths) \cap F} : i \in 1..Len(s)}
LintFileSeq(e, F) == <<PairsIn(J(e).missing, F), SeqSet(J(e).readerr) \cap F, SeqSet(J(e).nolic) \cap F, SeqSet(J(e).nocop) \cap F>>
LintFileFamily(e, F) == NonEmpty(SeqSet(LintFileSeq(e, F)))
LintFileObs(r) == {{r.out[i].item : i \in {i \in 1..Len(r.out) : r.out[i].label = lb}} : lb \in Labels(r.out)}

AllEmpty(e) == /\ J(e).missing = <<>> /\ J(e).bad = <<>> /\ J(e).unused = <<>> /\ J(e).deprecated = <<>>
               /\ J(e).noext = <<>> /\ J(e).nocop = <<>> /\ J(e).nolic = <<>> /\ J(e).readerr = <<>>

Verdict(e) ==
   IF e.crash # "" THEN "crash"
   ELSE IF ~(e.exits.json = e.exits.plain /\ e.exits.plain = e.exits.lines /\ e.exits.lines = e.exits.quiet)
        THEN "C13.exit-status-differs-between-formats"
   ELSE IF e.quietlen # 0 THEN "C13.quiet-prints"
   ELSE IF J(e).compliant # AllEmpty(e) THEN "C13.json-compliant-flag-vs-own-lists"
   ELSE IF e.exits.json # (IF J(e).compliant THEN 0 ELSE 1) THEN "C13.exit-vs-json-flag"
   ELSE IF J(e).counts.total # Len(J(e).files) THEN "C13.json-files-total"
   ELSE IF J(e).counts.withcop # Len(J(e).files) - Len(J(e).nocop) THEN "C13.json-count-copyright"
   ELSE IF J(e).counts.withlic # Len(J(e).files) - Len(J(e).nolic) THEN "C13.json-count-licensing"
   ELSE IF PlainObs(e) # PlainFamily(e) \/ Len(e.plain) # CountNonEmpty(PlainSeq(e)) THEN "C13.plain-vs-json"
   ELSE IF LinesObs(e) # LinesFamily(e) \/ Cardinality(Labels(e.lines)) # CountNonEmpty(LinesSeq(e)) THEN "C13.lines-vs-json"
   ELSE LET badLF == {i \in 1..Len(e.lintfile) :
                        LET r == e.lintfile[i]
                            F == SeqSet(r.args) \cap SeqSet(e.covered)
                        IN  \/ LintFileObs(r) # LintFileFamily(e, F)
                            \/ Cardinality(Labels(r.out)) # CountNonEmpty(LintFileSeq(e, F))
                            \/ r.exit # (IF LintFileFamily(e, F) = {} THEN 0 ELSE 1)}
        IN  IF badLF # {} THEN "C13.lint-file-vs-lint" ELSE ""

KnownFinding(e, c) == ""

TInit == l = 1
TNext == /\ l <= Len(Tr)
         /\ LET e == Tr[l]
                c == Verdict(e)
            IN  IF c = "" THEN TRUE ELSE PrintT(<<"REJECT", e.tid, 0, c, KnownFinding(e, c), e.label>>)
         /\ l' = l + 1
=================================================================================
