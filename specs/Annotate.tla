--------------------------------- MODULE Annotate ---------------------------------
(* The annotate command as a state machine over what a file DECLARES (the linter's *)
(* view of it), serving                                                            *)
(*   C07  what annotate writes, the linter reads back                              *)
(*   C09  annotate accumulates and never drops                                     *)
(*   C10  an identical re-run changes nothing                                      *)
(*   C11  a failed annotation leaves no trace and shows in the exit status         *)
(*                                                                                 *)
(* State: declared[f] = [cop, lic, con] sets (cop as notices of module Copyright), *)
(*        bytes[f]    = a version counter standing for the file's exact bytes      *)
(*        sib[f]      = whether f.license exists                                   *)
(* Action Invoke(b, fs): one `reuse annotate <options b> <files fs>`.  For every   *)
(* file the command either COMPLETES (declared' = declared + request, possibly     *)
(* merged), SKIPS (documented no-op of --skip-existing / --skip-unrecognised) or   *)
(* FAILS (nothing about the file or its .license sibling changes).  Exit status:   *)
(* 0 iff no file failed, else 1; 2 for usage errors, before anything is touched.   *)
(* Which files can fail is a parameter (FailSet): the model explores every subset. *)
EXTENDS Copyright

CONSTANTS Files,        \* file names of the model
          Bundles,      \* option bundles: name -> [cop, lic, con, merge, skip]
          MaxSteps,
          AllowFail     \* BOOLEAN: explore failing subsets (model check) or not (generation of histories)

VARIABLES declared, bytes, sib, hist, last
avars == <<declared, bytes, sib, hist, last>>

NoInfo == [cop |-> {}, lic |-> {}, con |-> {}]
HasInfo(d) == d.cop # {} \/ d.lic # {} \/ d.con # {}

(* R: the declared information after a completed annotation *)
MergedCops(S) == CHOOSE O \in MMergeAll(S) : TRUE
After(d, b) ==
   [cop |-> IF b.merge THEN MergedCops(d.cop \cup b.cop) ELSE d.cop \cup b.cop,
    lic |-> d.lic \cup b.lic,
    con |-> d.con \cup b.con]

Init == /\ declared = [f \in Files |-> NoInfo] /\ bytes = [f \in Files |-> 0]
        /\ sib = [f \in Files |-> FALSE] /\ hist = <<>>
        /\ last = [exit |-> 0, failed |-> {}, skipped |-> {}]

Invoke(bn, fs, failing) ==
   LET b == Bundles[bn]
       skipped == {f \in fs : b.skip /\ HasInfo(declared[f])}
       done == fs \ (failing \cup skipped)
   IN  /\ Len(hist) < MaxSteps
       /\ failing \subseteq fs \ skipped
       /\ declared' = [f \in Files |-> IF f \in done THEN After(declared[f], b) ELSE declared[f]]
       /\ bytes' = [f \in Files |-> IF f \in done /\ After(declared[f], b) # declared[f] THEN bytes[f] + 1 ELSE bytes[f]]
       /\ UNCHANGED sib
       /\ hist' = Append(hist, [b |-> bn, fs |-> fs])
       /\ last' = [exit |-> IF failing = {} THEN 0 ELSE 1, failed |-> failing, skipped |-> skipped]
Next == \E bn \in DOMAIN Bundles : \E fs \in SUBSET Files \ {{}} :
           \E failing \in (IF AllowFail THEN SUBSET fs ELSE {{}}) : Invoke(bn, fs, failing)
Spec == Init /\ [][Next]_avars

-----------------------------------------------------------------------------------
(* properties of the machine (checked by TLC) *)
Subsumes(d2, d1) == /\ Holders(d1.cop) \subseteq Holders(d2.cop) /\ d1.lic \subseteq d2.lic /\ d1.con \subseteq d2.con
Monotone == [][\A f \in Files : Subsumes(declared'[f], declared[f])]_avars                           \* C09
FailedUntouched == [][\A f \in last'.failed : declared'[f] = declared[f] /\ bytes'[f] = bytes[f] /\ sib'[f] = sib[f]]_avars   \* C11
ExitReflectsFailure == (last.exit = 0) <=> (last.failed = {})                                        \* C11
Idempotent ==                                                                                        \* C10
   [][\A f \in Files :
        (Len(hist) >= 1 /\ hist'[Len(hist')] = hist[Len(hist)] /\ f \notin last.failed /\ f \notin last'.failed
           /\ f \in hist[Len(hist)].fs /\ ~Bundles[hist[Len(hist)].b].merge)
          => bytes'[f] = bytes[f]]_avars
=================================================================================
