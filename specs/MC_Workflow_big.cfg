CONSTANTS
  Files = {"a.py", "src/b.c", "docs/c.md"}
  Lics = {"0BSD", "LicenseRef-x"}
  GlobFiles = {"docs/c.md"}
  GlobLic = "0BSD"
  MaxCmds = 1
  InitPick = "all"
SPECIFICATION Spec
INVARIANT ComplianceReachable
INVARIANT DownloadAllExact
INVARIANT AnnotateIdempotent
INVARIANT DownloadPartial
PROPERTY Monotone
PROPERTY ReadersReadOnly
PROPERTY ConversionKeepsAttribution
PROPERTY OnlyConvertMovesGlob
PROPERTY SiblingsOnlyGrow
PROPERTY SkipExistingLeavesDeclaringTextsAlone
INVARIANT LintFileVsLint
CHECK_DEADLOCK FALSE
