--------------------------------- MODULE Trace_C20 ---------------------------------
(* Trace validation for C20.  Event kinds                                           *)
(*   make     n (notice requested: prefix style, years, holder), line (what          *)
(*            make_copyright_line returned), readback (notice lines that lint reads  *)
(*            from a file annotated with exactly this request)                       *)
(*   verbatim given (a statement that already is a notice), line, readback           *)
(*   merge    S (parsed notices before), O (parsed notices after), via               *)
EXTENDS Copyright, Json, IOUtils, TLCExt
Tr == ndJsonDeserialize(IOEnv.TRACE_FILE)
VARIABLE l
SeqSet(s) == {s[i] : i \in 1..Len(s)}

Verdict(e) ==
   IF e.crash # "" THEN "crash"
   ELSE IF e.kind = "make"
        THEN IF e.line # Text(e.n) THEN "C20.built-notice-text"
             ELSE IF SeqSet(e.readback) # {Text(e.n)} THEN "C20.built-notice-not-read-back-as-one-notice"
             ELSE IF e.parsed # e.n THEN "C20.read-back-prefix-year-holder"
             ELSE ""
   ELSE IF e.kind = "verbatim"
        THEN IF e.line # e.given THEN "C20.existing-notice-not-kept-verbatim"
             ELSE IF SeqSet(e.readback) # {e.given} THEN "C20.existing-notice-not-read-back-verbatim"
             ELSE ""
   ELSE IF e.kind = "merge"
        THEN IF \E i \in 1..Len(e.O) : e.O[i].pfx = "?" THEN "C20.merge-result-is-not-a-notice"
             ELSE MergeOK(SeqSet(e.S), SeqSet(e.O))
   ELSE "harness.unknown-event-kind"

KnownFinding(e, c) == ""
TInit == l = 1
TNext == /\ l <= Len(Tr)
         /\ LET e == Tr[l]
                c == Verdict(e)
            IN  IF c = "" THEN TRUE ELSE PrintT(<<"REJECT", e.tid, 0, c, KnownFinding(e, c), e.label>>)
         /\ l' = l + 1
=================================================================================
