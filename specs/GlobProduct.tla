------------------------------- MODULE GlobProduct -------------------------------
(* C05: language inclusion for paths of ANY length, decided by exploring the       *)
(* product of three subset constructions per case:                                 *)
(*    nar - R, narrow reading of the case's globs                                  *)
(*    wid - R, wide reading                                                        *)
(*    imp - the matcher under test: either the items parsed from the regular       *)
(*          expression the real code compiled (Mode = "impl", binding file), or    *)
(*          the mechanism model Glob!Translate (Mode = "model", M |= R).           *)
(* One transition = one more path character.  Report is an "invariant" that never  *)
(* fails but prints a REJECT line for every reachable product state in which the   *)
(* matcher accepts outside Wide or rejects inside Narrow (total verdict).          *)
EXTENDS Glob, Json, IOUtils, TLC, TLCExt
CONSTANTS PathSym, Mode
PathSymDefault == {"a", "z", ".", "/", "*", "\\", "\n"}     \* (cfg files do not unescape strings)
Cases == ndJsonDeserialize(IOEnv.CASES_FILE)      \* [id, globs, impl]

VARIABLES ci, nar, wid, imp, path
vars == <<ci, nar, wid, imp, path>>
view == <<ci, nar, wid, imp>>                      \* path is a witness only (VIEW)

Globs(i)  == Cases[i].globs
ImplOf(i) == IF Mode = "model" THEN [j \in 1..Len(Globs(i)) |-> Translate(Globs(i)[j])]
             ELSE Cases[i].impl
NarOf(i)  == [j \in 1..Len(Globs(i)) |-> Narrow(Globs(i)[j])]
WidOf(i)  == [j \in 1..Len(Globs(i)) |-> Wide(Globs(i)[j])]

StartAll(itss)      == [j \in 1..Len(itss) |-> Start(itss[j])]
StepAll(itss, S, c) == [j \in 1..Len(itss) |-> Step(itss[j], S[j], c)]
AccAny(itss, S)     == \E j \in 1..Len(itss) : Acc(itss[j], S[j])

Init == /\ ci \in 1..Len(Cases)
        /\ nar = StartAll(NarOf(ci)) /\ wid = StartAll(WidOf(ci)) /\ imp = StartAll(ImplOf(ci))
        /\ path = <<>>
Next == \E c \in PathSym :
        /\ nar' = StepAll(NarOf(ci), nar, c)
        /\ wid' = StepAll(WidOf(ci), wid, c)
        /\ imp' = StepAll(ImplOf(ci), imp, c)
        /\ path' = Append(path, c)
        /\ UNCHANGED ci
Spec == Init /\ [][Next]_vars

NarAcc == AccAny(NarOf(ci), nar)
WidAcc == AccAny(WidOf(ci), wid)
ImpAcc == AccAny(ImplOf(ci), imp)

NothingMissed  == NarAcc => ImpAcc                \* C05 "nothing inside it is missed"
NothingOutside == ImpAcc => WidAcc                \* C05 "nothing outside this language is ever matched"
NarrowInWide   == NarAcc => WidAcc                \* sanity of R itself

Tag == IF Mode = "model" THEN "model:" ELSE ""
Report ==
   /\ (~NothingMissed  => PrintT(<<"REJECT", Cases[ci].id, 0, Tag \o "C05.nothing-missed", "", <<Globs(ci), path>>>>))
   /\ (~NothingOutside => PrintT(<<"REJECT", Cases[ci].id, 0, Tag \o "C05.nothing-outside", "", <<Globs(ci), path>>>>))

(* model drift: does the real matcher translate exactly like M?  (informational)   *)
SetOfSeq(s) == {s[j] : j \in 1..Len(s)}
Drift == (Mode = "impl" /\ path = <<>> /\
          SetOfSeq(Cases[ci].impl) # {Translate(Globs(ci)[j]) : j \in 1..Len(Globs(ci))})
            => PrintT(<<"DRIFT", Cases[ci].id, Globs(ci)>>)
=================================================================================
