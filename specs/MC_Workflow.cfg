CONSTANTS
  Files = {"a.py", "docs/c.md"}
  Lics = {"MIT", "0BSD"}
  GlobFiles = {"docs/c.md"}
  GlobLic = "0BSD"
  MaxCmds = 1
  InitPick = "all"
SPECIFICATION Spec
INVARIANT ComplianceReachable
INVARIANT DownloadAllExact
INVARIANT AnnotateIdempotent
INVARIANT DownloadPartial
PROPERTY Monotone
PROPERTY ReadersReadOnly
PROPERTY ConversionKeepsAttribution
PROPERTY OnlyConvertMovesGlob
PROPERTY SiblingsOnlyGrow
PROPERTY SkipExistingLeavesDeclaringTextsAlone
INVARIANT LintFileVsLint
CHECK_DEADLOCK FALSE
