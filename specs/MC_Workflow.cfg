CONSTANTS
  Files = {"a.py", "src/b.c", "docs/c.md"}
  Lics = {"MIT", "0BSD", "LicenseRef-x"}
  MaxCmds = 1
  InitPick = "all"
SPECIFICATION Spec
INVARIANT ComplianceReachable
INVARIANT DownloadAllExact
INVARIANT AnnotateIdempotent
INVARIANT DownloadPartial
PROPERTY Monotone
PROPERTY ReadersReadOnly
CHECK_DEADLOCK FALSE
