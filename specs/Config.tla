----------------------------------- MODULE Config -----------------------------------
(* C16 - malformed input yields a diagnostic and a defined exit status, never a crash. *)
(*                                                                                     *)
(* Part 1: the REUSE.toml shape matrix.  A cell gives one key a value of one TOML type; *)
(* Class says what the REUSE specification makes of it:                                *)
(*   "valid"   the file is a valid configuration      -> the command exits 0 or 1       *)
(*   "invalid" definitely not a valid configuration   -> exit 2, the message names it   *)
(*   "grey"    the specification does not decide      -> only: no crash, exit in 0..2   *)
(* Part 2: other malformed inputs are named classes with a fixed expectation.          *)
EXTENDS Naturals, Sequences, FiniteSets, TLC, Json

Keys  == {"version", "annotations", "path", "precedence", "SPDX-FileCopyrightText", "SPDX-License-Identifier"}
Types == {"absent", "int", "float", "bool", "string", "datetime", "empty-array", "array-of-strings", "array-of-ints",
          "mixed-array", "table", "array-of-tables", "empty-string", "bad-enum", "bad-expression", "array-with-bad-expression"}

Class(key, type) ==
   CASE key = "version" ->
          IF type = "int" THEN "valid" ELSE IF type \in {"bool"} THEN "grey" ELSE "invalid"
     [] key = "annotations" ->
          IF type \in {"absent", "array-of-tables"} THEN "valid" ELSE IF type = "empty-array" THEN "grey" ELSE "invalid"
     [] key = "path" ->
          IF type \in {"string", "array-of-strings"} THEN "valid" ELSE IF type \in {"empty-string"} THEN "grey" ELSE "invalid"
     [] key = "precedence" ->
          IF type \in {"absent", "string"} THEN "valid" ELSE "invalid"
     [] key = "SPDX-FileCopyrightText" ->
          IF type \in {"absent", "string", "array-of-strings", "empty-string"} THEN "valid" ELSE IF type = "empty-array" THEN "grey" ELSE "invalid"
     [] key = "SPDX-License-Identifier" ->
          IF type \in {"absent", "string", "array-of-strings"} THEN "valid"
          ELSE IF type \in {"empty-array", "empty-string"} THEN "grey" ELSE "invalid"
(* which types make sense to try for a key *)
Applicable(key, type) ==
   /\ (type = "bad-enum" => key = "precedence")
   /\ (type \in {"bad-expression", "array-with-bad-expression"} => key = "SPDX-License-Identifier")
   /\ (type = "empty-string" => key \in {"path", "SPDX-FileCopyrightText", "SPDX-License-Identifier"})
   /\ (type = "array-of-tables" => key \in {"annotations", "path", "version", "SPDX-FileCopyrightText"})
Worse(a, b) == IF "invalid" \in {a, b} THEN "invalid" ELSE IF "grey" \in {a, b} THEN "grey" ELSE "valid"

CONSTANT MaxDev
VARIABLES devs
Cell == {[key |-> k, type |-> t] : k \in Keys, t \in Types}
Init == devs = {}
Next == /\ Cardinality(devs) < MaxDev
        /\ \E c \in Cell : Applicable(c.key, c.type) /\ (\A d \in devs : d.key # c.key) /\ devs' = devs \cup {c}
Spec == Init /\ [][Next]_devs
RECURSIVE ClassAll(_)
ClassAll(D) == IF D = {} THEN "valid" ELSE LET d == CHOOSE x \in D : TRUE IN Worse(Class(d.key, d.type), ClassAll(D \ {d}))
(* the keys of an [[annotations]] table only exist in the file when `annotations` still is an array of tables *)
TopLevel == {"version", "annotations"}
ClassOf(D) == IF [key |-> "version", type |-> "absent"] \in D /\ [key |-> "annotations", type |-> "absent"] \in D
              THEN "grey"        \* nothing is left: a zero-length REUSE.toml, which the tool does not even look at
              ELSE IF \E d \in D : d.key = "annotations" /\ d.type # "array-of-tables"
              THEN ClassAll({d \in D : d.key \in TopLevel}) ELSE ClassAll(D)
RECURSIVE SetToSeq(_)
SetToSeq(T) == IF T = {} THEN <<>> ELSE LET x == CHOOSE y \in T : TRUE IN <<x>> \o SetToSeq(T \ {x})
Emit == devs # {} => PrintT(ToJson([devs |-> SetToSeq(devs), class |-> ClassOf(devs)]))
EveryCellClassified == \A c \in Cell : Class(c.key, c.type) \in {"valid", "invalid", "grey"}

(* Part 2 *)
OtherClass ==
   [ toml_syntax |-> "invalid", toml_not_utf8 |-> "invalid", toml_duplicate_key |-> "invalid", toml_nested_bad |-> "invalid",
     dep5_syntax |-> "invalid", dep5_not_utf8 |-> "invalid", dep5_and_toml |-> "invalid", dep5_bad_expression |-> "grey",
     covered_nul_bytes |-> "valid", covered_not_utf8 |-> "valid", covered_long_line |-> "valid", covered_bad_expression |-> "valid",
     covered_unreadable |-> "valid", covered_vanishes |-> "valid", licenseref_not_utf8 |-> "valid", license_dir_is_file |-> "grey",
     template_bad_syntax |-> "grey", dot_license_not_utf8 |-> "valid",
     dep5_and_nested_toml |-> "invalid", covered_terminator_run |-> "valid",
     template_raises |-> "grey", template_undefined |-> "grey", template_garbles_expression |-> "grey", dot_license_is_directory |-> "grey",
     licenses_same_identifier |-> "invalid",     \* LICENSES/MIT.txt next to LICENSES/MIT.md: a conflict of the project's set-up
     two_files_fail_annotate |-> "valid", three_files_fail_annotate |-> "valid",   \* nothing wrong with the configuration
     gitmodules_empty_path |-> "valid", gitmodules_bare_path_key |-> "valid", gitmodules_not_utf8 |-> "valid",           \* odd bytes in what Git reports: not a
     ignored_name_not_utf8 |-> "valid", covered_name_not_utf8 |-> "valid",         \* configuration error, never a traceback
     covered_gone_after_listing |-> "valid", dot_license_is_fifo |-> "valid", covered_expression_parens |-> "valid", toml_glob_run |-> "valid",
     toml_expression_parens |-> "invalid", template_not_utf8 |-> "grey",
     repository_test |-> "grey" ]     \* inputs of the repository's own tests: only the exit-status discipline is demanded

(* the requirement on one observed run *)
Outcome(class, exit, crashed, namesFile) ==
   IF crashed THEN "C16.unhandled-exception"
   ELSE IF exit \notin {0, 1, 2} THEN "C16.undocumented-exit-status"
   ELSE IF class = "invalid" /\ exit # 2 THEN "C16.broken-configuration-accepted"
   ELSE IF class = "invalid" /\ ~namesFile THEN "C16.diagnostic-does-not-name-the-file"
   ELSE IF class = "valid" /\ exit = 2 THEN "C16.valid-input-rejected-as-usage-error"
   ELSE ""
=================================================================================
