--------------------------------- MODULE Trace_C19 ---------------------------------
(* Trace validation for C19: one event = one `reuse download` invocation with a       *)
(* scripted network.                                                                  *)
(*   e.request : <<[given, id (without '+'), isRef, net ("ok"|"http"|"conn"|"none"),   *)
(*                  sourceHas, dest (path the documentation prescribes), body]>>       *)
(*   e.useSource, e.output ("" or the --output path), e.all                            *)
(*   e.pre, e.post : path -> content hash (project and outside sentinel)               *)
(*   e.netlog : identifiers the stub network was asked for;  e.exit                    *)
(*   e.missingAfter : identifiers lint still reports missing afterwards (for --all)    *)
EXTENDS Naturals, Sequences, FiniteSets, Json, IOUtils, TLC, TLCExt
Tr == ndJsonDeserialize(IOEnv.TRACE_FILE)
VARIABLE l
SeqSet(s) == {s[i] : i \in 1..Len(s)}
Reqs(e) == SeqSet(e.request)
Existed(e, r) == r.dest \in DOMAIN e.pre
ShouldExistAfter(e, r) ==                     \* the identifier's file is there after the run (new or old)
   \/ Existed(e, r)
   \/ (r.isRef /\ (~e.useSource \/ r.sourceHas))
   \/ (~r.isRef /\ r.net = "ok")
Failed(e, r) == Existed(e, r) \/ (r.isRef /\ e.useSource /\ ~r.sourceHas) \/ (~r.isRef /\ r.net # "ok")

Verdict(e) ==
   IF e.crash # "" THEN "crash"
   ELSE IF \E p \in DOMAIN e.pre : p \notin DOMAIN e.post \/ e.post[p] # e.pre[p] THEN "C19.existing-file-replaced-or-altered"
   ELSE IF ~(DOMAIN e.post \ DOMAIN e.pre \subseteq {r.dest : r \in Reqs(e)}) THEN "C19.wrote-somewhere-else"
   ELSE IF \E r \in Reqs(e) : r.isRef /\ r.id \in SeqSet(e.netlog) THEN "C19.network-used-for-LicenseRef"
   ELSE IF \E r \in Reqs(e) : ShouldExistAfter(e, r) /\ r.dest \notin DOMAIN e.post THEN "C19.licence-not-supplied"
   ELSE IF \E r \in Reqs(e) : ~ShouldExistAfter(e, r) /\ r.dest \in DOMAIN e.post THEN "C19.file-left-behind-after-failed-transfer"
   ELSE IF \E r \in Reqs(e) : ~Existed(e, r) /\ r.dest \in DOMAIN e.post /\ e.post[r.dest] # r.body THEN "C19.partial-or-wrong-content"
   ELSE IF e.exit # (IF \E r \in Reqs(e) : Failed(e, r) THEN 1 ELSE 0) THEN "C19.exit-status"
   ELSE IF e.all /\ e.exit = 0 /\ e.missingAfter # <<>> THEN "C19.missing-licences-after-download-all"
   ELSE ""
KnownFinding(e, c) == ""
TInit == l = 1
TNext == /\ l <= Len(Tr)
         /\ LET e == Tr[l]
                c == Verdict(e)
            IN  IF c = "" THEN TRUE ELSE PrintT(<<"REJECT", e.tid, e.k, c, KnownFinding(e, c), e.label>>)
         /\ l' = l + 1
=================================================================================
