CONSTANTS
  MaxLen = 5
  Forms = {"bare", "hash", "slashes", "tight"}
SPECIFICATION Spec
CHECK_DEADLOCK FALSE
