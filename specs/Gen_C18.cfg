CONSTANTS
  SampleN = 0
SPECIFICATION Spec
INVARIANT Emit
INVARIANT EquivReflexive
CHECK_DEADLOCK FALSE
