------------------------------ MODULE Trace_Project ------------------------------
(* Trace validation for the project-level properties.  One event = one run of      *)
(* `reuse lint --json` (and friends) on a materialised abstract project:           *)
(*   e.p      the abstract project (module Project)                                *)
(*   e.checks which properties' clauses to judge  (subset of C01 C03 C04 C06)      *)
(*   e.obs    the projected observation                                            *)
(*     exit, compliant, files : <<[path, items : <<[kind, val, src, st]>>]>>,      *)
(*     missing / bad : <<[id, paths]>>, unused, deprecated, noext, used : <<id>>,  *)
(*     nocop, nolic, readerr : <<path>>, counts : [total, withcop, withlic]        *)
(* The verdict is total: the first failing clause is named, the run continues.     *)
EXTENDS Project, Json, IOUtils, TLC, TLCExt
Tr == ndJsonDeserialize(IOEnv.TRACE_FILE)
VARIABLE l

ObsPaths(e) == {e.obs.files[i].path : i \in 1..Len(e.obs.files)} \cup SeqSet(e.obs.readerr)
(* the covered set used for judging the information: R's answer, and the tool's    *)
(* own answer where the statement leaves the file free                             *)
WithCov(e) ==
   LET p == e.p
       cov(i) == LET r == CoverReq(p.files[i], p.opts)
                 IN  r = "must" \/ (r = "free" /\ p.files[i].pathstr \in ObsPaths(e))
   IN  [p EXCEPT !.files = [i \in 1..Len(p.files) |-> [p.files[i] EXCEPT !.cov = cov(i)]]]

PathsOf(p, S) == {p.files[i].pathstr : i \in S}
ObsItemsOf(e, path) ==
   UNION {SeqSet(e.obs.files[i].items) : i \in {i \in 1..Len(e.obs.files) : e.obs.files[i].path = path}}
ObsIds(s) == {s[i].id : i \in 1..Len(s)}
ObsPathsOfId(s, id) == UNION {SeqSet(s[i].paths) : i \in {i \in 1..Len(s) : s[i].id = id}}

(* e.scope: the directory a recursive command was pointed at (<<>> = the root);     *)
(* files outside it must not be touched whatever their own status                   *)
ScopeOf(e) == IF "scope" \in DOMAIN e THEN e.scope ELSE <<>>
C03Verdict(e) ==
   LET p == e.p
       inScope(i) == IsPrefixSeq(ScopeOf(e), p.files[i].path)
       must    == {i \in 1..Len(p.files) : inScope(i) /\ CoverReq(p.files[i], p.opts) = "must"}
       mustnot == {i \in 1..Len(p.files) : ~inScope(i) \/ CoverReq(p.files[i], p.opts) = "mustnot"}
       known   == {p.files[i].pathstr : i \in 1..Len(p.files)}
   IN  IF ~(PathsOf(p, must) \subseteq ObsPaths(e)) THEN "C03.covered-file-skipped"
       ELSE IF PathsOf(p, mustnot) \cap ObsPaths(e) # {} THEN "C03.excluded-file-examined"
       ELSE IF ~(ObsPaths(e) \subseteq known) THEN "C03.unexpected-path-examined"
       ELSE ""

C04Verdict(e) ==
   LET p == WithCov(e)
       bad == {i \in Covered(p) : ~p.files[i].unreadable /\
                 Visible4(InfoOf(p, p.files[i])) # ObsItemsOf(e, p.files[i].pathstr)}
   IN  IF bad = {} THEN "" ELSE "C04.items-and-sources"

C06Verdict(e) ==
   LET p == WithCov(e)
       o == e.obs
       badMin == BadUsed(p) \cup BadProvided(p)
       filesMissing(id) == PathsOf(p, {i \in Covered(p) : ~p.files[i].unreadable /\ id \in MissingOf(p, p.files[i])})
   IN  IF ObsIds(o.missing) # Missing(p) THEN "C06.missing"
       ELSE IF \E id \in Missing(p) : ObsPathsOfId(o.missing, id) # filesMissing(id) THEN "C06.missing-files"
       ELSE IF SeqSet(o.unused) # Unused(p) THEN "C06.unused"
       ELSE IF ~(badMin \subseteq ObsIds(o.bad)) THEN "C06.bad-not-reported"
       ELSE IF ~(ObsIds(o.bad) \subseteq badMin \cup BadLenient(p)) THEN "C06.bad-spurious"
       ELSE IF SeqSet(o.deprecated) # Deprecated(p) THEN "C06.deprecated"
       ELSE IF SeqSet(o.noext) # NoExt(p) THEN "C06.without-extension"
       ELSE IF SeqSet(o.used) # UsedKeys(p) THEN "C06.used"
       ELSE ""

C01Verdict(e) ==
   LET p == WithCov(e)
       o == e.obs
   IN  IF o.exit # (IF Compliant(p) THEN 0 ELSE 1) THEN "C01.exit-status"
       ELSE IF o.compliant # Compliant(p) THEN "C01.compliant-flag"
       ELSE IF SeqSet(o.nocop) # PathsOf(p, NoCop(p)) THEN "C01.missing-copyright"
       ELSE IF SeqSet(o.nolic) # PathsOf(p, NoLic(p)) THEN "C01.missing-licensing"
       ELSE IF SeqSet(o.readerr) # PathsOf(p, ReadErr(p)) THEN "C01.read-errors"
       ELSE IF o.counts.total # Cardinality(Covered(p) \ ReadErr(p)) THEN "C01.files-total"
       ELSE ""

Verdict(e) ==
   LET want(c) == c \in SeqSet(e.checks)
       v3 == IF want("C03") THEN C03Verdict(e) ELSE ""
       v4 == IF v3 = "" /\ want("C04") THEN C04Verdict(e) ELSE ""
       v6 == IF v3 = "" /\ v4 = "" /\ want("C06") THEN C06Verdict(e) ELSE ""
       v1 == IF v3 = "" /\ v4 = "" /\ v6 = "" /\ want("C01") THEN C01Verdict(e) ELSE ""
   IN  IF e.obs.crash # "" THEN "crash"
       ELSE IF v3 # "" THEN v3 ELSE IF v4 # "" THEN v4 ELSE IF v6 # "" THEN v6 ELSE v1

(* KF-C03-1: `git ls-files --ignored --others --directory` does not list ignored    *)
(* files that sit inside a wholly untracked (not itself ignored) directory, so the  *)
(* tool examines them although `git check-ignore` says they are ignored.  The       *)
(* signature: EVERY wrongly examined file is VCS-ignored, lies below a directory    *)
(* without any tracked file, and would be covered if Git did not ignore it.         *)
KF_C03_UntrackedDir(e) ==
   LET p == e.p
       offenders == {i \in 1..Len(p.files) : (~IsPrefixSeq(ScopeOf(e), p.files[i].path)
                                                 \/ CoverReq(p.files[i], p.opts) = "mustnot")
                                               /\ p.files[i].pathstr \in ObsPaths(e)}
       onlyVcs(f) == /\ IsPrefixSeq(ScopeOf(e), f.path)
                     /\ "untrackedDir" \in DOMAIN f /\ f.untrackedDir /\ f.ignored
                     /\ CoverReq([f EXCEPT !.ignored = FALSE], p.opts) # "mustnot"
   IN  offenders # {} /\ \A i \in offenders : onlyVcs(p.files[i])
KnownFinding(e, c) ==
   IF c = "C03.excluded-file-examined" /\ KF_C03_UntrackedDir(e) THEN "KF-C03-1" ELSE ""

TInit == l = 1
TNext == /\ l <= Len(Tr)
         /\ LET e == Tr[l]
                c == Verdict(e)
            IN  IF c = "" THEN TRUE ELSE PrintT(<<"REJECT", e.tid, 0, c, KnownFinding(e, c), e.label>>)
         /\ l' = l + 1
=================================================================================
