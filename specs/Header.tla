---------------------------------- MODULE Header ----------------------------------
(* C08 (and the placement part of C10): annotate changes nothing but the header.   *)
(*                                                                                 *)
(* Abstract text file: a sequence of lines [k, id].  id identifies the exact bytes *)
(* (0 = an empty line; every other line of a generated body is unique).  Kinds:    *)
(*   sheb   first-line declaration of the style (#!, <?xml, ...)                   *)
(*   code   a code line          icode  an indented code line                      *)
(*   blank  empty line           wsb    whitespace-only line                       *)
(*   sc / sct   own single-line comment, without / with a REUSE tag                *)
(*   isc    own single-line comment marker after indentation (not at column 0)     *)
(*   mo mm mmt mc   own multi-line comment: opener, middle, middle with tag, closer*)
(*   mone monet     one-line multi-line comment, without / with tag                *)
(*   mcx    closer followed by code on the same line                               *)
(*   fc / fct   comment in a foreign syntax, without / with tag                    *)
(*   dup    a later line with exactly the bytes of the first-line declaration      *)
(* A style is a record of facts read off the comment-style table (binding):        *)
(*   single, multi : BOOLEAN;  shebangs : BOOLEAN;  shebIsComment : BOOLEAN (the   *)
(*   shebang line itself looks like a single-line comment, e.g. "#!" under "#");   *)
(*   prefixClash : BOOLEAN (the single-line marker is a prefix of the multi-line   *)
(*   opener, e.g. Julia "#" / "#=")                                                *)
(*                                                                                 *)
(* Observed result: post = sequence of [id, tws] with id > 0 a kept line (tws: it  *)
(* lost trailing blanks), 0 an empty line, -1 a line that did not exist before.    *)
(*                                                                                 *)
(* R = AnnotateRel(pre, post, replace).   M = MAnnotate: find first REUSE comment, *)
(* shebang extraction, header placement - as the implementation does it.           *)
EXTENDS Integers, Sequences, FiniteSets, TLC

Blankish == {"blank", "wsb"}
OwnComment == {"sc", "sct", "mo", "mm", "mmt", "mc", "mone", "monet"}
Tagged == {"sct", "mmt", "monet"}
(* where the first-line declaration itself looks like a comment of the style ("#!" under "#"), a later line with *)
(* the same bytes is an ordinary comment line of the style *)
OwnCommentOf(st) == OwnComment \cup (IF st.shebIsComment THEN {"dup"} ELSE {})

SeqSet(s) == {s[i] : i \in 1..Len(s)}
IdxOf(s, x) == CHOOSE i \in 1..Len(s) : s[i] = x

-----------------------------------------------------------------------------------
(*                                  R: AnnotateRel                                 *)
PreKind(pre, id) == pre[CHOOSE i \in 1..Len(pre) : pre[i].id = id].k
SolidIds(pre) == SelectSeq([i \in 1..Len(pre) |-> pre[i].id], LAMBDA x : x # 0 /\ PreKind(pre, x) \notin Blankish)
KeptIds(post) == SelectSeq([i \in 1..Len(post) |-> post[i].id], LAMBDA x : x > 0)
NewIdx(post) == {i \in 1..Len(post) : post[i].id = -1}
IsSubseq(a, b) ==      \* a is a subsequence of b (both duplicate-free)
   /\ SeqSet(a) \subseteq SeqSet(b)
   /\ \A i, j \in 1..Len(a) : i < j => IdxOf(b, a[i]) < IdxOf(b, a[j])
   /\ \A i, j \in 1..Len(a) : i # j => a[i] # a[j]

(* blank lines directly below position i (exclusive) up to the next solid line *)
RECURSIVE GapPre(_, _)
GapPre(pre, i) == IF i > Len(pre) \/ pre[i].k \notin Blankish THEN <<>> ELSE <<pre[i].id>> \o GapPre(pre, i + 1)
RECURSIVE GapPost(_, _, _)
GapPost(pre, post, i) ==
   IF i > Len(post) THEN <<>>
   ELSE IF post[i].id = 0 \/ (post[i].id > 0 /\ PreKind(pre, post[i].id) \in Blankish)
        THEN <<post[i].id>> \o GapPost(pre, post, i + 1)
   ELSE <<>>

(* Tag lines of the old header reappear, byte for byte, in the merged new header.   *)
(* Inside the span of new lines, and directly touching it, a line that matches a    *)
(* tagged comment line of the original is therefore header material, not an anchor. *)
EffPost(pre, post0) ==
   LET new0 == NewIdx(post0)
       isTag(i) == post0[i].id > 0 /\ PreKind(pre, post0[i].id) \in Tagged
       lo0 == IF new0 = {} THEN 0 ELSE CHOOSE i \in new0 : \A j \in new0 : i <= j
       hi0 == IF new0 = {} THEN 0 ELSE CHOOSE i \in new0 : \A j \in new0 : j <= i
       inZone(i) == \/ (lo0 <= i /\ i <= hi0)
                    \/ (i < lo0 /\ \A m \in i..(lo0 - 1) : isTag(m))
                    \/ (i > hi0 /\ \A m \in (hi0 + 1)..i : isTag(m))
   IN  [i \in 1..Len(post0) |-> IF new0 # {} /\ isTag(i) /\ inZone(i) THEN [id |-> -1, tws |-> FALSE] ELSE post0[i]]

AnnotateRel(st, pre, post0, replace) ==
   LET post    == EffPost(pre, post0)
       solid   == SolidIds(pre)                         \* lines with content, in order
       keptAll == KeptIds(post)
       kept    == SelectSeq(keptAll, LAMBDA x : PreKind(pre, x) \notin Blankish)
       removed == SelectSeq(solid, LAMBDA x : x \notin SeqSet(kept))
       new     == NewIdx(post)
       lo      == IF new = {} THEN 0 ELSE CHOOSE i \in new : \A j \in new : i <= j
       hi      == IF new = {} THEN 0 ELSE CHOOSE i \in new : \A j \in new : j <= i
       above   == IF lo = 0 THEN {} ELSE {i \in 1..(lo - 1) : post[i].id > 0 /\ PreKind(pre, post[i].id) \notin Blankish}
       aboveId == IF above = {} THEN 0 ELSE post[CHOOSE i \in above : \A j \in above : j <= i].id   \* solid line right above the header
       remFirst == IF removed = <<>> THEN 0 ELSE IdxOf(solid, removed[1])
       beforeRem == IF remFirst <= 1 THEN 0 ELSE solid[remFirst - 1]                               \* solid line right above the old header
       exempt  == {aboveId, beforeRem} \ {0}
       preIds  == [i \in 1..Len(pre) |-> pre[i].id]
       postIds == [i \in 1..Len(post) |-> post[i].id]
   IN  IF new = {} THEN "C08.no-header-written"
       ELSE IF ~IsSubseq(keptAll, preIds) THEN "C08.lines-reordered-or-duplicated"
       ELSE IF \E i \in lo..hi : post[i].id > 0 THEN "C08.header-block-not-contiguous"
       ELSE IF ~replace /\ removed # <<>> THEN "C08.line-lost"
       ELSE IF removed # <<>> /\ ( \/ \E i \in 1..Len(removed) : PreKind(pre, removed[i]) \notin OwnCommentOf(st)
                                   \/ ~\E i \in 1..Len(removed) : PreKind(pre, removed[i]) \in Tagged
                                   \/ \E i \in 1..(Len(removed) - 1) : IdxOf(solid, removed[i + 1]) # IdxOf(solid, removed[i]) + 1
                                   \* one comment block: consecutive lines of the file - an empty line ends a block of
                                   \* single-line comments, so comment lines beyond it are not part of the header
                                   \/ \E i \in 1..(Len(removed) - 1) :
                                         IdxOf(preIds, removed[i + 1]) # IdxOf(preIds, removed[i]) + 1 )
            THEN "C08.line-lost"                          \* removed lines are not one tagged comment block of the style
       ELSE IF \E i \in 1..Len(post) : post[i].id > 0 /\ post[i].tws /\ post[i].id # aboveId /\ PreKind(pre, post[i].id) \notin Blankish
            THEN "C08.trailing-whitespace-changed-away-from-header"
       ELSE IF \E x \in SeqSet(kept) \ exempt :            \* blank runs away from the header are untouched
                 GapPre(pre, IdxOf(preIds, x) + 1) # GapPost(pre, post, IdxOf(postIds, x) + 1)
            THEN "C08.blank-lines-changed-away-from-header"
       ELSE IF aboveId # 0 /\ remFirst # 1 /\ GapPre(pre, 1) # GapPost(pre, post, 1)
            THEN "C08.leading-blank-lines-changed-away-from-header"   \* neither the new nor the old header is at the top
       ELSE ""

(* first-line rule: a shebang-like first line stays the first line *)
FirstStaysFirst(pre, post) ==
   (Len(pre) > 0 /\ pre[1].k = "sheb") => (Len(post) > 0 /\ post[1].id = pre[1].id)

-----------------------------------------------------------------------------------
(*                      M: find header, extract shebang, place                      *)
IsSingleComment(st, ln) == st.single /\ (ln.k \in {"sc", "sct"} \/ (ln.k \in {"sheb", "dup"} /\ st.shebIsComment)
                                          \/ (st.prefixClash /\ ln.k \in {"mo", "mone", "monet"}))
EndsMulti(ln) == ln.k \in {"mc", "mone", "monet"}
(* length of the comment block starting at line i, 0 = none / unparseable *)
RECURSIVE SingleRun(_, _, _)
SingleRun(st, L, i) == IF i <= Len(L) /\ IsSingleComment(st, L[i]) THEN 1 + SingleRun(st, L, i + 1) ELSE 0
(* a line on which the closer is followed by other text (mcx) makes the block unparseable: the search does not run on *)
(* to a later closer (it did before repair b0538d1, and everything in between was replaced with the header: KF-C08-1) *)
MultiLen(L, i) ==
   LET ends == {j \in i..Len(L) : EndsMulti(L[j])}
       first == CHOOSE j \in ends : \A m \in ends : j <= m
   IN  IF ends = {} THEN 0
       ELSE IF \E m \in i..first : L[m].k = "mcx" THEN 0
       ELSE first - i + 1
CommentAt(st, L, i) ==
   LET s == SingleRun(st, L, i)
   IN  IF s > 0 THEN s
       ELSE IF st.multi /\ L[i].k \in {"mo", "mone", "monet"} THEN MultiLen(L, i)
       ELSE 0
HasTag(L, i, n) == \E j \in i..(i + n - 1) : L[j].k \in Tagged
FirstHeader(st, L) ==        \* <<start, length>> of the first comment block that carries REUSE information, <<0,0>> if none
   LET c == {i \in 1..Len(L) : CommentAt(st, L, i) > 0 /\ HasTag(L, i, CommentAt(st, L, i))}
   IN  IF c = {} THEN <<0, 0>> ELSE LET i == CHOOSE i \in c : \A j \in c : i <= j IN <<i, CommentAt(st, L, i)>>

AllBlank(L) == \A i \in 1..Len(L) : L[i].k \in Blankish
RECURSIVE RStrip(_)
RStrip(L) == IF L = <<>> THEN <<>> ELSE IF L[Len(L)].k \in Blankish THEN RStrip(SubSeq(L, 1, Len(L) - 1)) ELSE L
RECURSIVE ShebLines(_)
ShebLines(L) == IF L # <<>> /\ L[1].k \in {"sheb", "dup"} THEN 1 + ShebLines(Tail(L)) ELSE 0
Keep(L) == [i \in 1..Len(L) |-> [id |-> L[i].id, tws |-> FALSE]]
New == [id |-> -1, tws |-> FALSE]
Empty == [id |-> 0, tws |-> FALSE]

MAnnotate(st, L, replace) ==
   LET fh   == IF replace THEN FirstHeader(st, L) ELSE <<0, 0>>
       b0   == IF fh[1] = 0 THEN <<>> ELSE SubSeq(L, 1, fh[1] - 1)
       h0   == IF fh[1] = 0 THEN <<>> ELSE SubSeq(L, fh[1], fh[1] + fh[2] - 1)
       a0   == IF fh[1] = 0 THEN L ELSE SubSeq(L, fh[1] + fh[2], Len(L))
       \* shebang handling
       hSheb == st.shebangs /\ h0 # <<>> /\ h0[1].k = "sheb" /\ AllBlank(b0)
       aSheb == st.shebangs /\ ~hSheb /\ a0 # <<>> /\ a0[1].k = "sheb" /\ b0 = <<>> /\ h0 = <<>>
       b1   == IF hSheb THEN SubSeq(h0, 1, ShebLines(h0)) ELSE IF aSheb THEN SubSeq(a0, 1, ShebLines(a0)) ELSE b0
       a1   == IF aSheb THEN SubSeq(a0, ShebLines(a0) + 1, Len(a0)) ELSE a0
       had  == h0 # <<>> /\ ~(hSheb /\ ShebLines(h0) = Len(h0))       \* bool(header) after extraction
       top  == IF AllBlank(b1) THEN <<>> ELSE Keep(RStrip(b1)) \o <<Empty>>
       sep  == IF ~AllBlank(a1) /\ ~had /\ a1[1].k # "blank" THEN <<Empty>> ELSE <<>>
       bot  == IF AllBlank(a1) THEN <<>> ELSE sep \o Keep(a1)
   IN  top \o <<New, New>> \o bot
=================================================================================
