CONSTANTS
  MaxLines = 4
  StyleClasses = {"S1", "S2", "S3", "M1", "M2", "B1", "B2", "J"}
  WithMcx = TRUE
SPECIFICATION Spec
INVARIANT MechanismMeetsRequirement
INVARIANT MFirstStaysFirst
CHECK_DEADLOCK FALSE
