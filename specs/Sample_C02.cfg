CONSTANTS
  Terminators <- TerminatorSet
  SampleN = 100
SPECIFICATION SampleSpec
CONSTRAINT SampleBound
INVARIANT Emit
INVARIANT MechanismMeetsRequirement
CHECK_DEADLOCK FALSE
