----------------------------- MODULE Trace_LintFileArgs -----------------------------
(* One event = one real `reuse lint-file ARG OTHER` for a cell of LintFileArgs.tla.      *)
(*   e.c [what, how]  e.otherBad (the second argument is a covered file without          *)
(*   information)  e.exit  e.crash                                                        *)
(*   e.named : the argument's own path is reported;  e.below : the file below the named   *)
(*   directory is reported;  e.target : the file a named link points to is reported;      *)
(*   e.other : the second argument is reported                                             *)
EXTENDS LintFileArgs, IOUtils, TLCExt
Tr == ndJsonDeserialize(IOEnv.TRACE_FILE)
VARIABLE l
Clause(e) ==
   LET o == ROutcome(e.c)
   IN  IF e.crash # "" THEN "crash"
       ELSE IF e.exit # ExitOf(o, e.otherBad) THEN "C13.lint-file-exit-status-is-not-the-table's"
       ELSE IF o = "usage" /\ (e.named \/ e.other \/ e.below \/ e.target) THEN "C13.usage-error-but-something-was-reported"
       ELSE IF o # "usage" /\ e.other # e.otherBad THEN "C13.other-argument-not-judged-on-its-own"
       ELSE IF e.named # (o = "reported") THEN "C13.argument-reported-although-not-covered-or-not-reported-although-covered"
       ELSE IF e.below THEN "C13.a-file-below-a-named-directory-was-reported"
       ELSE IF e.target THEN "C13.the-target-of-a-named-link-was-reported"
       ELSE ""
KnownFinding(e, c) == ""
TInit == l = 1 /\ phase = "start" /\ cell = CHOOSE c \in Cells : TRUE
TNext == /\ l <= Len(Tr)
         /\ LET e == Tr[l]
                x == Clause(e)
            IN  IF x = "" THEN TRUE ELSE PrintT(<<"REJECT", e.tid, 0, x, KnownFinding(e, x), e.label>>)
         /\ l' = l + 1 /\ UNCHANGED vars
=====================================================================================
