------------------------------- MODULE IgnoreBlock -------------------------------
(* C12 - REUSE-IgnoreStart / REUSE-IgnoreEnd blocks.                               *)
(*                                                                                 *)
(* Abstract text = sequence of tokens                                              *)
(*   S start marker, E end marker, L licence tag, C copyright tag,                 *)
(*   K contributor tag, T plain text, N newline.                                   *)
(*                                                                                 *)
(* R (requirement): a left-to-right scanner with one flag.  It is written as the   *)
(* state machine of this module: every reachable state is one token sequence       *)
(* together with the scanner's verdict on it (vis = indices outside every block).  *)
(* M (mechanism): the recursive first-index filter of reuse.extract, transcribed   *)
(* on token offsets (MFilter).  Invariant MechanismMeetsRequirement is M |= R.     *)
EXTENDS Naturals, Sequences, FiniteSets, TLC

CONSTANTS MaxLen,      \* bound on the token sequence length
          Forms        \* concrete renderings the harness knows ("bare", "hash", ...)

Tok    == {"S", "E", "L", "C", "K", "T", "N"}
TagTok == {"L", "C", "K"}

VARIABLES toks, inB, vis, form
vars == <<toks, inB, vis, form>>

-----------------------------------------------------------------------------------
(* R as a function of a whole sequence (used by the trace specification).          *)
RECURSIVE VisFrom(_, _, _)
VisFrom(t, k, inBlock) ==
   IF k > Len(t) THEN {}
   ELSE IF inBlock THEN VisFrom(t, k + 1, t[k] # "E")        \* the NEXT end marker closes; no nesting
   ELSE IF t[k] = "S" THEN VisFrom(t, k + 1, TRUE)
   ELSE {k} \cup VisFrom(t, k + 1, FALSE)                     \* a stray E is just text
VisIdx(t) == VisFrom(t, 1, FALSE)

RECURSIVE SortedSeqOf(_)
SortedSeqOf(S) == IF S = {} THEN <<>>
                  ELSE LET m == CHOOSE x \in S : \A y \in S : x <= y
                       IN  <<m>> \o SortedSeqOf(S \ {m})

(* A sequence is "clean" when every visible tag token ends its line in the         *)
(* block-free text, so that the tag's value is exactly the token's own value.      *)
Clean(t) ==
   LET v == SortedSeqOf(VisIdx(t))
   IN  \A j \in 1..Len(v) : t[v[j]] \in TagTok => (j = Len(v) \/ t[v[j + 1]] = "N")
Expected(t, kind) == {k \in VisIdx(t) : t[k] = kind}

-----------------------------------------------------------------------------------
(* M: reuse.extract.filter_ignore_block on token offsets.  FirstIdx = str.index.   *)
FirstIdx(t, x) == IF \E i \in 1..Len(t) : t[i] = x
                  THEN CHOOSE i \in 1..Len(t) : t[i] = x /\ \A j \in 1..(i - 1) : t[j] # x
                  ELSE 0
\* MFilter(t, off): visible ORIGINAL indices of the text t whose first token has original index off+1
RECURSIVE MFilter(_, _)
MFilter(t, off) ==
   LET s == FirstIdx(t, "S")
       e == FirstIdx(t, "E")
       before == {off + i : i \in 1..(s - 1)}
   IN  IF s = 0 THEN {off + i : i \in 1..Len(t)}                 \* `ignore_start is None`
       ELSE IF e = 0 THEN before                                  \* no end marker at all
       ELSE IF e > s THEN before \cup MFilter(SubSeq(t, e + 1, Len(t)), off + e)
       ELSE LET rest == SubSeq(t, s + 1, Len(t))                  \* first E precedes first S: look again after S
                e2   == FirstIdx(rest, "E")
            IN  IF e2 = 0 THEN before
                ELSE before \cup MFilter(SubSeq(rest, e2 + 1, Len(rest)), off + s + e2)

(* The pinned code tested `if not ignore_start`, which confuses offset 0 with "no  *)
(* marker".  Kept as a named deviation so the model can show what the fix removed. *)
MFilterPinned(t, f) ==
   IF f = "bare" /\ Len(t) > 0 /\ t[1] = "S" THEN {i : i \in 1..Len(t)} ELSE MFilter(t, 0)

-----------------------------------------------------------------------------------
Init == /\ toks = <<>> /\ inB = FALSE /\ vis = <<>> /\ form \in Forms

Scan(x) ==
   /\ Len(toks) < MaxLen
   /\ toks' = Append(toks, x)
   /\ IF inB THEN inB' = (x # "E") /\ vis' = vis
      ELSE IF x = "S" THEN inB' = TRUE /\ vis' = vis
      ELSE inB' = FALSE /\ vis' = Append(vis, Len(toks) + 1)
   /\ UNCHANGED form

Next == \E x \in Tok : Scan(x)
Spec == Init /\ [][Next]_vars

-----------------------------------------------------------------------------------
TypeOK == toks \in Seq(Tok) /\ Len(toks) <= MaxLen /\ inB \in BOOLEAN
ScannerIsR == vis = SortedSeqOf(VisIdx(toks))                      \* the machine and the function agree
MechanismMeetsRequirement == MFilter(toks, 0) = VisIdx(toks)      \* M |= R   (C12)
StartOpens ==                                                       \* a start marker met outside a block hides up to the next E
   \A i \in 1..Len(toks) :
      (toks[i] = "S" /\ (i = 1 \/ (i - 1) \in VisIdx(toks) \/ toks[i - 1] = "E"))
        => \A j \in i..Len(toks) : (\A k \in i..j : toks[k] # "E") => j \notin VisIdx(toks)
StrayEndIsText ==                                                   \* an E met outside a block is visible
   \A i \in 1..Len(toks) : (toks[i] = "E" /\ (i = 1 \/ (i - 1) \in VisIdx(toks))) => i \in VisIdx(toks)
PinnedDeviates == MFilterPinned(toks, form) = VisIdx(toks)         \* expected to FAIL (documents the repaired defect)
===================================================================================
