--------------------------------- MODULE Trace_C16 ---------------------------------
(* Trace validation for C16: one event = one command run on one malformed input.       *)
(*   e.class ("valid" | "invalid" | "grey", from Config!ClassOf / OtherClass, recomputed *)
(*   here from e.devs / e.other), e.exit, e.crashed, e.namesFile, e.cmd,                 *)
(*   e.readProblem: for unreadable / undecodable covered files: the file is listed as   *)
(*   read error or as lacking information (required when e.mustFlag)                    *)
EXTENDS Config, IOUtils, TLCExt
Tr == ndJsonDeserialize(IOEnv.TRACE_FILE)
VARIABLE l
SeqSet(s) == {s[i] : i \in 1..Len(s)}
ClassE(e) == IF e.other # "" THEN OtherClass[e.other] ELSE ClassOf(SeqSet(e.devs))
Verdict(e) ==
   LET o == Outcome(ClassE(e), e.exit, e.crashed, e.namesFile)
   IN  IF e.class # ClassE(e) THEN "harness.class-differs-from-spec"
       ELSE IF o # "" THEN o
       ELSE IF e.mustFlag /\ ~e.readProblem THEN "C16.unreadable-file-neither-read-error-nor-lacking-information"
       ELSE ""
KnownFinding(e, c) == ""
TInit == l = 1 /\ devs = {}
TNext == /\ l <= Len(Tr)
         /\ LET e == Tr[l]
                c == Verdict(e)
            IN  IF c = "" THEN TRUE ELSE PrintT(<<"REJECT", e.tid, 0, c, KnownFinding(e, c), <<e.label, e.cmd, e.exit, e.tail>>>>)
         /\ l' = l + 1 /\ UNCHANGED devs
=================================================================================
