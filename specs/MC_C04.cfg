CONSTANTS
  Depth = 2
  MaxTables = 1
  WithDep5 = TRUE
  SampleN = 0
SPECIFICATION Spec
INVARIANT MechanismMeetsRequirement
INVARIANT DotLicenseShadows
INVARIANT OverrideIsExclusive
INVARIANT EveryItemHasASource
CHECK_DEADLOCK FALSE
