------------------------------- MODULE Trace_Annotate -------------------------------
(* Trace validation for the annotate command (C07, C09, C10, C11).  A behaviour      *)
(* (tid) is a history of invocations on one project; one event per invocation:       *)
(*   e.req   [cop : <<notice>>, verb : <<text>> (statements given as complete        *)
(*            notices), lic, con : <<text>>, merge, skipExisting, skipUnrecognised,   *)
(*            rendersCon : BOOLEAN]                                                   *)
(*   e.files <<[name, mustSucceed, mustFail, unrecognised, pre, post]>> with pre / post =       *)
(*            [cop, lic, con : <<text>>, notices : <<parsed notice>>, sha, licsha]    *)
(*            - what the tool's own linter reads for the file, and content hashes     *)
(*            of the file and of its .license sibling ("absent" if there is none)     *)
(*   e.exit, e.treeUnchanged, e.sameAsPrev (same command line as the previous event)  *)
(*   e.expect "usage" (the command line is a documented usage error), "fail" (no      *)
(*            valid header can exist: the template loses the information), or "any"   *)
(* R is outcome-conditional: every file is either COMPLETE (declares exactly what it  *)
(* declared before plus the request) or UNTOUCHED; the exit status tells which.       *)
EXTENDS Copyright, Json, IOUtils, TLCExt
Tr == ndJsonDeserialize(IOEnv.TRACE_FILE)
VARIABLE l
SeqSet(s) == {s[i] : i \in 1..Len(s)}

Untouched(f) == f.pre.sha = f.post.sha /\ f.pre.licsha = f.post.licsha
ReqCopTexts(e) == {Text(e.req.cop[i]) : i \in 1..Len(e.req.cop)} \cup SeqSet(e.req.verb)
HasInfo(d) == d.cop # <<>> \/ d.lic # <<>> \/ d.con # <<>>
LegitSkip(e, f) == (e.req.skipExisting /\ HasInfo(f.pre)) \/ (e.req.skipUnrecognised /\ f.unrecognised)

(* C09's wording for --merge-copyrights: the same holders remain, and every year     *)
(* stated before (or requested) lies in a range the file still states for that holder *)
MergeCovers(S, O) ==
   /\ Holders(O) = Holders(S)
   /\ \A h \in Holders(S) : \A y \in YearsOf(S, h) : \E n \in O : n.holder = h /\ n.y1 # 0 /\ n.y1 <= y /\ y <= n.y2
CopComplete(e, f) ==
   IF e.req.merge /\ ~e.req.noReplace
   THEN /\ \A i \in 1..Len(f.post.notices) : f.post.notices[i].pfx # "?" \/ f.post.cop[i] \in SeqSet(f.pre.cop)
        /\ MergeCovers({n \in SeqSet(f.pre.notices) \cup SeqSet(e.req.cop) : n.pfx # "?"},
                       {n \in SeqSet(f.post.notices) : n.pfx # "?"})
   ELSE SeqSet(f.post.cop) = SeqSet(f.pre.cop) \cup ReqCopTexts(e)
Complete(e, f) ==
   /\ CopComplete(e, f)
   /\ SeqSet(f.post.lic) = SeqSet(f.pre.lic) \cup SeqSet(e.req.lic)
   /\ IF e.req.rendersCon THEN SeqSet(f.post.con) = SeqSet(f.pre.con) \cup SeqSet(e.req.con)
      ELSE TRUE
Dropped(e, f) == \/ ~(SeqSet(f.pre.lic) \subseteq SeqSet(f.post.lic))
                 \/ (~e.req.merge /\ ~(SeqSet(f.pre.cop) \subseteq SeqSet(f.post.cop)))
                 \/ (e.req.merge /\ ~({n.holder : n \in SeqSet(f.pre.notices)} \subseteq {n.holder : n \in SeqSet(f.post.notices)}))
                 \/ (e.req.merge /\ ~e.req.noReplace /\
                       LET S == {n \in SeqSet(f.pre.notices) : n.pfx # "?"}
                           O == {n \in SeqSet(f.post.notices) : n.pfx # "?"}
                       IN  \E h \in Holders(S) : \E y \in YearsOf(S, h) :        \* a year stated before is no longer covered
                              ~\E n \in O : n.holder = h /\ n.y1 # 0 /\ n.y1 <= y /\ y <= n.y2)
                 \/ (e.req.rendersCon /\ ~(SeqSet(f.pre.con) \subseteq SeqSet(f.post.con)))

Prev(i) == IF i > 1 /\ Tr[i - 1].tid = Tr[i].tid THEN Tr[i - 1] ELSE [exit |-> -1]
FilesOf(e) == {e.files[i] : i \in 1..Len(e.files)}
Sane(e) == e.crash = "" /\ e.exit \in {0, 1, 2}
Touched(e) == {f \in FilesOf(e) : ~Complete(e, f) /\ ~Untouched(f)}      \* changed, but not into what was asked for

(* Every property is judged on its own (one clause per family, all of them printed): a defect usually breaks several   *)
(* at once, and the check of one property only listens to the clauses that carry its name.                             *)
C11Clause(i) ==
   LET e == Tr[i] IN
   IF e.crash # "" THEN ""
   ELSE IF e.exit \notin {0, 1, 2} THEN "C11.undocumented-exit-status"
   ELSE IF e.expect = "usage" /\ e.exit # 2 THEN "C11.usage-error-not-detected-before-processing"
   ELSE IF e.expect = "fail" /\ (e.exit # 1 \/ \E f \in FilesOf(e) : ~Untouched(f))
        THEN "C11.header-that-cannot-be-valid-was-not-refused"
   ELSE IF e.exit = 2
        THEN IF \A f \in FilesOf(e) : Untouched(f) /\ e.treeUnchanged THEN "" ELSE "C11.usage-error-after-touching-files"
   ELSE IF \E f \in FilesOf(e) : f.mustFail /\ (~Untouched(f) \/ e.exit # 1)
        THEN "C11.header-that-cannot-be-valid-was-not-refused"
   ELSE IF e.exit # 0 /\ Touched(e) # {} THEN "C11.failed-annotation-left-a-trace"
   ELSE IF e.exit = 1 /\ \A f \in FilesOf(e) : Complete(e, f) \/ LegitSkip(e, f)
        THEN "C11.exit-status-1-but-every-file-was-handled"
   ELSE IF \E f \in FilesOf(e) : f.mustSucceed /\ ~Complete(e, f) /\ ~LegitSkip(e, f)
        THEN "C11.file-that-can-be-annotated-was-not-processed"
   ELSE ""
C09Clause(i) ==
   LET e == Tr[i] IN
   IF Sane(e) /\ e.exit = 0 /\ \E f \in Touched(e) : Dropped(e, f)
   THEN "C09.previously-declared-information-dropped"
   \* "after each successful run the file declares the union of everything it declared before and everything requested"
   ELSE IF Sane(e) /\ e.exit = 0 /\ \E f \in FilesOf(e) : ~Complete(e, f) /\ ~LegitSkip(e, f)
   THEN "C09.file-does-not-declare-the-union-of-before-and-request" ELSE ""
C07Clause(i) ==
   LET e == Tr[i] IN
   IF ~Sane(e) \/ e.exit # 0 THEN ""
   ELSE IF Touched(e) # {} THEN "C07.read-back-differs-from-request"
   ELSE IF \E f \in FilesOf(e) : ~Complete(e, f) /\ ~LegitSkip(e, f)
        THEN "C07.success-reported-but-requested-information-not-declared"
   ELSE ""
C10Clause(i) ==
   LET e == Tr[i] IN
   IF ~Sane(e) \/ e.exit # 0 THEN ""
   ELSE IF e.sameAsPrev /\ ~e.req.noReplace /\ Prev(i).exit = 0 /\ \E f \in FilesOf(e) : ~Untouched(f)
        THEN "C10.identical-rerun-changed-the-file"
   ELSE IF e.sameAsPrev /\ \E f \in FilesOf(e) : f.post.blocks > 1 /\ f.pre.blocks <= 1 /\ ~e.req.noReplace
        THEN "C10.second-header-block-stacked"
   ELSE ""
Clauses(i) == {c \in {IF Tr[i].crash # "" THEN "crash" ELSE "", C11Clause(i), C09Clause(i), C07Clause(i), C10Clause(i)} : c # ""}

(* KF-C10-4: an already-commented template (name ending in .commented.jinja2) with a truly empty line between its copyright and its licence  *)
(* block renders a header of two comment blocks; the next run finds the first block only and puts a complete new header in its   *)
(* place - the old licence block stays below and one more is stacked by every run.                                             *)
KF_C10_TwoBlocks(e) == e.req.twoBlocks
KnownFinding(e, c) == IF c \in {"C10.identical-rerun-changed-the-file", "C10.second-header-block-stacked"} /\ KF_C10_TwoBlocks(e) THEN "KF-C10-4"
                      ELSE ""
TInit == l = 1
TNext == /\ l <= Len(Tr)
         /\ LET e == Tr[l]
            IN  \A c \in Clauses(l) : PrintT(<<"REJECT", e.tid, e.k, c, KnownFinding(e, c), e.label>>)
         /\ l' = l + 1
=================================================================================
