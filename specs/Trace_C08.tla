--------------------------------- MODULE Trace_C08 ---------------------------------
(* Trace validation for C08: one event = one `reuse annotate` run on a generated    *)
(* text file; pre / post are the line sequences of module Header.                  *)
(*   e.pre  : <<[k, id]>>     e.post : <<[id, tws]>>    e.replace : BOOLEAN        *)
(*   e.exit, e.unchanged (bytes identical), e.facts = [bomPre, bomPostFirst,       *)
(*   eolPre, eolPost, mixedPost, finalPre, finalPost]                              *)
EXTENDS Header, Json, IOUtils, TLCExt
Tr == ndJsonDeserialize(IOEnv.TRACE_FILE)
VARIABLE l

LastIsKept(e) == Len(e.post) > 0 /\ e.post[Len(e.post)].id >= 0 /\
                 \E i \in 1..Len(e.post) : e.post[i].id = -1 /\ \E j \in (i + 1)..Len(e.post) : e.post[j].id > 0
Verdict(e) ==
   IF e.crash # "" THEN "crash"
   ELSE IF e.exit # 0 THEN (IF e.unchanged THEN "" ELSE "C11.failed-annotation-changed-the-file")
   ELSE LET r == AnnotateRel(e.st, e.pre, e.post, e.replace)
        IN  IF r # "" THEN r
            ELSE IF ~FirstStaysFirst(e.pre, e.post) THEN "C08.first-line-declaration-not-first"
            ELSE IF e.facts.bomPre /\ ~e.facts.bomPostFirst THEN "C08.byte-order-mark-not-first"
            ELSE IF e.facts.mixedPost \/ (e.facts.eolPre # "none" /\ e.facts.eolPost # e.facts.eolPre) THEN "C08.line-ending-convention-changed"
            ELSE IF LastIsKept(e) /\ e.facts.finalPre # e.facts.finalPost THEN "C08.final-newline-changed"
            ELSE ""

(* KF-C08-1: a multi-line comment closer followed by code on the same line is not    *)
(* recognised as the end of the header block: the block search runs on to the next   *)
(* line that ENDS with the closer (or fails), so the lines in between are replaced.  *)
KF_C08_CloserWithCode(e) == \E i \in 1..Len(e.pre) : e.pre[i].k = "mcx"
KnownFinding(e, c) == IF c = "C08.line-lost" /\ KF_C08_CloserWithCode(e) THEN "KF-C08-1" ELSE ""

TInit == l = 1
TNext == /\ l <= Len(Tr)
         /\ LET e == Tr[l]
                c == Verdict(e)
            IN  IF c = "" THEN TRUE ELSE PrintT(<<"REJECT", e.tid, 0, c, KnownFinding(e, c), e.label>>)
         /\ l' = l + 1
=================================================================================
