---------------------------------- MODULE Dep5Glob ----------------------------------
(* C17, part 1: the wildcard language of .reuse/dep5 `Files:` patterns (Debian         *)
(* copyright format 1.0) and its comparison with what convert-dep5 wrote.             *)
(*   "*" any sequence of characters (including "/"), "?" any one character,            *)
(*   "\*" "\?" "\\" the literal character, everything else itself.                     *)
(* R: Dep5Tok(p) as automaton items (module Glob).  The converted REUSE.toml glob is   *)
(* OBSERVED from the real toml_from_dep5 and its compiled matcher is bound from the    *)
(* real AnnotationsItem; TLC explores the product over all paths: the two languages    *)
(* must be EQUAL.                                                                      *)
EXTENDS Glob, Json, IOUtils, TLC, TLCExt
CONSTANTS PathSym
PathSymDefault == {"a", "z", ".", "/", "*", "?", "\\"}
Cases == ndJsonDeserialize(IOEnv.CASES_FILE)      \* [id, pattern (characters), converted (string), impl (items of the TOML side)]

RECURSIVE Dep5Tok(_)
Dep5Tok(p) ==
   IF p = <<>> THEN <<>>
   ELSE IF p[1] = "\\" THEN (IF Len(p) = 1 THEN <<>> ELSE <<Lit(p[2])>> \o Dep5Tok(SubSeq(p, 3, Len(p))))
   ELSE IF p[1] = "*" THEN <<GS>> \o Dep5Tok(Tail(p))
   ELSE IF p[1] = "?" THEN <<Any1>> \o Dep5Tok(Tail(p))
   ELSE <<Lit(p[1])>> \o Dep5Tok(Tail(p))

VARIABLES ci, ref, imp, path
vars == <<ci, ref, imp, path>>
view == <<ci, ref, imp>>
StartAll(itss)      == [j \in 1..Len(itss) |-> Start(itss[j])]
StepAll(itss, S, c) == [j \in 1..Len(itss) |-> Step(itss[j], S[j], c)]
AccAny(itss, S)     == \E j \in 1..Len(itss) : Acc(itss[j], S[j])
RefOf(i) == <<Dep5Tok(Cases[i].pattern)>>
Init == /\ ci \in 1..Len(Cases) /\ ref = StartAll(RefOf(ci)) /\ imp = StartAll(Cases[ci].impl) /\ path = <<>>
Next == \E c \in PathSym : /\ ref' = StepAll(RefOf(ci), ref, c) /\ imp' = StepAll(Cases[ci].impl, imp, c)
                           /\ path' = Append(path, c) /\ UNCHANGED ci
Spec == Init /\ [][Next]_vars
Same == AccAny(RefOf(ci), ref) = AccAny(Cases[ci].impl, imp)
HasUnescaped(p, ch) == \E i \in 1..Len(p) : p[i] = ch /\ (i = 1 \/ p[i - 1] # "\\" \/ (i > 2 /\ p[i - 2] = "\\"))
(* KF-C17-1: REUSE.toml has no single-character wildcard; a dep5 "?" is written out as a literal "?"   *)
(* KF-C17-2: a dep5 asterisk followed by "/" needs at least one directory; it is written as a globstar *)
(*           followed by "/", which in REUSE.toml also matches zero directories - the converted glob   *)
(*           accepts MORE (never less) than the dep5 pattern                                           *)
StarSlash(p) == \E i \in 1..(Len(p) - 1) : p[i] = "*" /\ p[i + 1] = "/" /\ HasUnescaped(SubSeq(p, 1, i), "*")
                   /\ (i = 1 \/ p[i - 1] # "\\" \/ (i > 2 /\ p[i - 2] = "\\"))
KnownFinding == IF HasUnescaped(Cases[ci].pattern, "?") THEN "KF-C17-1"
                ELSE IF StarSlash(Cases[ci].pattern) /\ AccAny(Cases[ci].impl, imp) /\ ~AccAny(RefOf(ci), ref) THEN "KF-C17-2"
                ELSE ""
Report == ~Same => PrintT(<<"REJECT", Cases[ci].id, 0, "C17.converted-glob-denotes-a-different-set-of-paths", KnownFinding,
                             <<Cases[ci].pattern, Cases[ci].converted, path>>>>)
=================================================================================
