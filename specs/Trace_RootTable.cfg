INIT TInit
NEXT TNext
CHECK_DEADLOCK FALSE
