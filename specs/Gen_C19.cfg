CONSTANTS
  Ids = {"A", "B", "LicenseRef-r"}
  RefIds = {"LicenseRef-r"}
  NetOutcomes = {"ok", "http", "conn"}
  SourceHas = {}
INIT Init
NEXT Finish
INVARIANT Emit
CHECK_DEADLOCK FALSE
