SPECIFICATION Spec
INVARIANT NeverBothGone
INVARIANT RefusesWithoutDep5
PROPERTY Dep5OnlyGoesAfterToml
CHECK_DEADLOCK FALSE
