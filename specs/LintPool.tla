--------------------------------- MODULE LintPool ---------------------------------
(* C14 - the lint / spdx pipeline as a concurrent system:                          *)
(*                                                                                 *)
(*   Walk      the covered files are enumerated in SOME order (directory listing   *)
(*             order is not specified): `order` is any permutation of Files        *)
(*   Chunk     pool.map cuts the list into chunks of size cs                       *)
(*   Take(w)   an idle worker takes the next chunk; it gets a FRESH copy of the    *)
(*             callable (pickled per chunk), so dep5 is parsed again               *)
(*   Process(w) the worker produces the report of the next file of its chunk       *)
(*   Collect   when every chunk is done the results are returned in INPUT order    *)
(*   Fold      the project report is built from the results, one by one            *)
(* Serial mode is the same machine with one worker and one chunk.                  *)
(*                                                                                 *)
(* Report(f) is abstract (the file's own report).  Property ScheduleFree: the      *)
(* folded, normalised report is the same set in every behaviour.  The concrete     *)
(* counterpart is checked by replaying these behaviours into the real code         *)
(* (harness/schedshim.py) and by validating recorded real-pool executions          *)
(* (Trace_C14).                                                                    *)
EXTENDS Naturals, Sequences, FiniteSets, TLC, Json

CONSTANTS Files,      \* set of covered files (model values or small integers)
          Workers,    \* set of worker ids
          ChunkSize   \* positive integer

VARIABLES phase, order, chunks, cur, done, parsed, results, agg, hist
vars == <<phase, order, chunks, cur, done, parsed, results, agg, hist>>
view == <<phase, order, chunks, cur, done, parsed, results, agg>>     \* hist (who took which chunk) is a record only

Perms(S) == {[i \in 1..Cardinality(S) |-> pm[i]] : pm \in Permutations(S)}      \* Files = 1..n
RECURSIVE Cut(_)
Cut(s) == IF s = <<>> THEN <<>>
          ELSE IF Len(s) <= ChunkSize THEN <<s>>
          ELSE <<SubSeq(s, 1, ChunkSize)>> \o Cut(SubSeq(s, ChunkSize + 1, Len(s)))

Init == /\ phase = "walk" /\ order = <<>> /\ chunks = <<>>
        /\ cur = [w \in Workers |-> <<>>]          \* remaining files of the chunk a worker holds
        /\ done = 0                                 \* chunks completely processed
        /\ parsed = [w \in Workers |-> FALSE]       \* this worker's current callable has parsed dep5
        /\ results = {}                             \* <<file, report>>
        /\ agg = {} /\ hist = <<>>

Walk == /\ phase = "walk" /\ order' \in Perms(Files) /\ phase' = "chunk"
        /\ UNCHANGED <<chunks, cur, done, parsed, results, agg, hist>>
Chunk == /\ phase = "chunk" /\ chunks' = Cut(order) /\ phase' = "map"
         /\ UNCHANGED <<order, cur, done, parsed, results, agg, hist>>
Take(w) == /\ phase = "map" /\ cur[w] = <<>> /\ chunks # <<>>
           /\ cur' = [cur EXCEPT ![w] = Head(chunks)] /\ chunks' = Tail(chunks)
           /\ parsed' = [parsed EXCEPT ![w] = FALSE]                  \* fresh copy of the callable
           /\ hist' = Append(hist, w)
           /\ UNCHANGED <<phase, order, done, results, agg>>
Report(f) == f
Process(w) == /\ phase = "map" /\ cur[w] # <<>>
              /\ results' = results \cup {<<Head(cur[w]), Report(Head(cur[w]))>>}
              /\ parsed' = [parsed EXCEPT ![w] = TRUE]
              /\ cur' = [cur EXCEPT ![w] = Tail(cur[w])]
              /\ done' = IF Len(cur[w]) = 1 THEN done + 1 ELSE done
              /\ UNCHANGED <<phase, order, chunks, agg, hist>>
Collect == /\ phase = "map" /\ chunks = <<>> /\ \A w \in Workers : cur[w] = <<>>
           /\ phase' = "fold" /\ UNCHANGED <<order, chunks, cur, done, parsed, results, agg, hist>>
Fold == /\ phase = "fold" /\ agg' = {r[2] : r \in results} /\ phase' = "done"
        /\ UNCHANGED <<order, chunks, cur, done, parsed, results, hist>>

Next == Walk \/ Chunk \/ Collect \/ Fold \/ \E w \in Workers : Take(w) \/ Process(w)
Spec == Init /\ [][Next]_vars /\ WF_vars(Next)

-----------------------------------------------------------------------------------
TypeOK == phase \in {"walk", "chunk", "map", "fold", "done"}
EachFileOnce ==                      \* no file is processed twice, none is lost
   /\ \A r, s \in results : r[1] = s[1] => r = s
   /\ (phase \in {"fold", "done"} => {r[1] : r \in results} = Files)
ScheduleFree == phase = "done" => agg = {Report(f) : f \in Files}          \* C14
NoIdleWorkerHoldsWork == \A w \in Workers : Len(cur[w]) <= ChunkSize
Terminates == <>(phase = "done")
(* generation of schedules for the replay pool (tlc -simulate): one line per finished behaviour *)
EmitSched == phase = "done" => PrintT(ToJson([order |-> order, cs |-> ChunkSize, takes |-> hist]))
=================================================================================
