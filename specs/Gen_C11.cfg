CONSTANTS
  Files = {"f1", "f2", "f3"}
  Bundles <- SmallBundles
  MaxSteps = 1
  AllowFail = TRUE
SPECIFICATION Spec
INVARIANT Emit
CHECK_DEADLOCK FALSE
