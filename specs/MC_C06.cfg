CONSTANTS
  N = 1
  Classes = {"cur", "dep", "exc", "ref", "unk"}
  Uses = {"none", "alone", "plus", "and", "or", "with", "paren", "twotags", "absorb", "dotlicense", "toml", "dep5"}
  Provs = {"absent", "txt", "md", "noext", "subdir", "plusname", "withdotlicense"}
  SampleN = 0
SPECIFICATION Spec
INVARIANT MechanismMeetsRequirement
INVARIANT MissingNotProvided
INVARIANT UnusedIsProvided
INVARIANT UsedOrUnused
CHECK_DEADLOCK FALSE
