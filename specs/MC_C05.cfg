CONSTANTS
  PathSym <- PathSymDefault
  Mode = "impl"
SPECIFICATION Spec
VIEW view
INVARIANT NarrowInWide
INVARIANT Report
INVARIANT Drift
CHECK_DEADLOCK FALSE
