CONSTANTS
  MaxDev = 0
INIT TInit
NEXT TNext
CHECK_DEADLOCK FALSE
