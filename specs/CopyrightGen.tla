-------------------------------- MODULE CopyrightGen --------------------------------
(* Generator / model check for Copyright: all sets of up to MaxSet notices over a   *)
(* small universe.  M |= R2: every result the merge mechanism can produce is OK.    *)
EXTENDS Copyright, Json
CONSTANTS MaxSet, GenPrefixes, SampleN
VARIABLES S, phase, step
vars == <<S, phase, step>>
YearForms == {<<0, 0>>, <<2010, 2010>>, <<2016, 2016>>, <<2010, 2014>>, <<2012, 2020>>}
Universe == {[pfx |-> p, y1 |-> y[1], y2 |-> y[2], holder |-> h] : p \in GenPrefixes, y \in YearForms, h \in {"H1", "H2"}}
Init == S = {} /\ phase = "build" /\ step = 0
Next == \/ /\ phase = "build" /\ Cardinality(S) < MaxSet /\ \E n \in Universe \ S : S' = S \cup {n}
           /\ UNCHANGED <<phase, step>>
        \/ /\ phase = "build" /\ S # {} /\ phase' = "case" /\ UNCHANGED <<S, step>>
Spec == Init /\ [][Next]_vars
BigUniverse == {[pfx |-> p, y1 |-> y[1], y2 |-> y[2], holder |-> h] : p \in Prefixes, y \in YearForms \cup {<<1999, 2003>>, <<2021, 2021>>}, h \in {"H1", "H2", "H3"}}
SampleNext == /\ S' = {RandomElement(BigUniverse) : k \in 1..(1 + (step % 5))} /\ phase' = "case" /\ step' = step + 1
SampleSpec == Init /\ [][SampleNext]_vars
SampleBound == TLCGet("level") <= SampleN

Done == phase = "case"
MechanismMeetsRequirement == Done => \A O \in MMergeAll(S) : MergeOK(S, O) = ""      \* M |= R2
MakeIsInjective == \A a, b \in S : Text(a) = Text(b) => a = b                          \* R1: distinct notices, distinct lines
RECURSIVE SetToSeq(_)
SetToSeq(T) == IF T = {} THEN <<>> ELSE LET x == CHOOSE y \in T : TRUE IN <<x>> \o SetToSeq(T \ {x})
Emit == Done => PrintT(ToJson([S |-> SetToSeq(S)]))
=================================================================================
