---------------------------------- MODULE Dep5Gen ----------------------------------
(* Enumerates every dep5 pattern up to MaxLen with well-formed escapes.              *)
EXTENDS Naturals, Sequences
CONSTANTS MaxLen
Sym == {"a", ".", "/", "*", "?", "\\"}
VARIABLES g, wf
vars == <<g, wf>>
RECURSIVE WellFormed(_)
WellFormed(p) == IF p = <<>> THEN TRUE
                 ELSE IF p[1] = "\\" THEN Len(p) >= 2 /\ p[2] \in {"*", "?", "\\"} /\ WellFormed(SubSeq(p, 3, Len(p)))
                 ELSE WellFormed(Tail(p))
Init == g = <<>> /\ wf = TRUE
Next == Len(g) < MaxLen /\ \E c \in Sym : g' = Append(g, c) /\ wf' = WellFormed(g')
Spec == Init /\ [][Next]_vars
=================================================================================
