SPECIFICATION Spec
INVARIANT MechanismMeetsRequirement
INVARIANT RootArgWins
INVARIANT Emit
CHECK_DEADLOCK FALSE
