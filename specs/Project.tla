--------------------------------- MODULE Project ---------------------------------
(* The abstract project and the requirement operators (R) shared by                *)
(*   C03  Covered            - which files are examined                            *)
(*   C04  InfoOf             - sources and precedence                              *)
(*   C06  Inventory          - missing / unused / bad / deprecated / no extension  *)
(*   C01  Compliant, Report  - the verdict and its categories                      *)
(*   C13, C14, C18           - views of the same report                            *)
(*                                                                                 *)
(* An abstract project p is a record                                               *)
(*   files    : sequence of file nodes                                             *)
(*   licfiles : sequence of entries found below LICENSES/                          *)
(*   tomls    : sequence of REUSE.toml files [dir, tables]                         *)
(*   dep5     : sequence of dep5 paragraphs (empty = no .reuse/dep5)               *)
(*   opts     : [submodules, meson : BOOLEAN]                                      *)
(*   cls      : identifier text -> class  "cur" | "dep" | "exc" | "ref" | "unk"    *)
(*              (current SPDX licence, deprecated SPDX licence, SPDX exception,    *)
(*               well-formed LicenseRef-, anything else) - a fact about the SPDX   *)
(*               lists, supplied with the project                                  *)
(* A file node is                                                                  *)
(*   path   : sequence of components        pchars : the same as characters        *)
(*   ncls   : class of its name (see ExcludedName)                                 *)
(*   type   : "text" | "binary" | "empty" | "symlink"                              *)
(*   anc    : ancestor directories, outermost first, each                          *)
(*            [cls, symlink, ignored, submodule : ...]                             *)
(*   ignored: the VCS says the file is ignored (git check-ignore)                  *)
(*   own    : what its own content declares  [cop, lic, bad]                       *)
(*   dot    : its .license sibling           [present, cop, lic, bad]              *)
(*   unreadable : reading it fails                                                 *)
(* cop = sequence of copyright notice texts; lic = sequence of expression trees    *)
(*   leaf [key, base]  (key = identifier as written, maybe with "+"; base = key    *)
(*   without "+"),  [op, l, r] for AND / OR,  [op |-> "WITH", l, x] with x a leaf. *)
EXTENDS Glob

SeqSet(s) == {s[i] : i \in 1..Len(s)}
IsPrefixSeq(a, b) == Len(a) <= Len(b) /\ \A i \in 1..Len(a) : a[i] = b[i]

-----------------------------------------------------------------------------------
(*                                    C03: Covered                                 *)
(* Name classes are chosen by the generator; the concretiser turns them into real  *)
(* names.  The statement excludes: LICENSE / LICENCE / COPYING optionally followed *)
(* by a "-" or "." suffix, *.license, SPDX documents, REUSE.toml.                  *)
ExcludedNameClass ==
   {"LICENSE", "LICENSE-suffix", "LICENSE.suffix", "LICENCE", "LICENCE-suffix", "LICENCE.suffix",
    "COPYING", "COPYING-suffix", "COPYING.suffix", "dot-license", "spdx", "spdx.rdf", "spdx.json",
    "spdx.xml", "spdx.yml", "spdx.yaml", "REUSE.toml"}
CoveredNameClass ==
   {"plain", "LICENSEX", "XLICENSE", "COPYINGX", "license-lower", "spdxx", "x.spdx.txt", "license-ext-other",
    "toml-other", "hidden", "space", "unicode"}
MetaDirClass == {"LICENSES", ".reuse", ".git", ".hg", ".sl"}

(* "must" / "mustnot" / "free" (statement silent: either answer is accepted)       *)
CoverReq(f, opts) ==
   LET n == Len(f.anc)
       blockedTop  == n >= 1 /\ f.anc[1].cls \in MetaDirClass                   \* LICENSES/, .reuse/, VCS dirs in the root
       blockedDeep == \E i \in 2..n : f.anc[i].cls \in MetaDirClass               \* the same names deeper: not pinned
       viaSymlink  == \E i \in 1..n : f.anc[i].symlink
       vcsIgnored  == f.ignored \/ \E i \in 1..n : f.anc[i].ignored
       inSubmodule == \E i \in 1..n : f.anc[i].submodule
       mesonTop    == n >= 2 /\ f.anc[1].cls = "subprojects"                      \* <root>/subprojects/X/...
       mesonDeep   == \E i \in 2..(n - 1) : f.anc[i].cls = "subprojects"
   IN  IF f.type \in {"empty", "symlink", "special"} \/ viaSymlink THEN "mustnot"   \* special: socket, named pipe, device - not a regular file
       ELSE IF f.ncls \in ExcludedNameClass THEN "mustnot"
       ELSE IF blockedTop \/ vcsIgnored THEN "mustnot"
       ELSE IF inSubmodule /\ ~opts.submodules THEN "mustnot"
       ELSE IF mesonTop /\ ~opts.meson THEN "mustnot"
       ELSE IF blockedDeep \/ (mesonDeep /\ ~opts.meson) THEN "free"
       ELSE IF f.ncls \in {"git-file", "hgtags"} THEN "free"                     \* VCS metadata that is a file
       ELSE "must"

-----------------------------------------------------------------------------------
(*                                    C04: InfoOf                                  *)
(* items: [kind : "cop" | "lic", val, src, st, tree]  (tree: the expression, for   *)
(* the inventory; a dummy leaf for copyright items)                                *)
NoTree == [key |-> "", base |-> ""]
CopItems(s, src, st) == {[kind |-> "cop", val |-> s[i], src |-> src, st |-> st, tree |-> NoTree] : i \in 1..Len(s)}
LicItems(s, src, st) == {[kind |-> "lic", val |-> s[i].text, src |-> src, st |-> st, tree |-> s[i].tree] : i \in 1..Len(s)}
Visible4(items) == {[kind |-> it.kind, val |-> it.val, src |-> it.src, st |-> it.st] : it \in items}

(* what the file itself (or its stand-in) declares *)
FileInfo(f) ==
   IF f.dot.present
   THEN IF f.dot.bad THEN {}
        ELSE CopItems(f.dot.cop, f.pathstr \o ".license", "dot-license")
               \cup LicItems(f.dot.lic, f.pathstr \o ".license", "dot-license")
   ELSE IF f.type = "binary" \/ f.own.bad THEN {}
   ELSE CopItems(f.own.cop, f.pathstr, "file-header") \cup LicItems(f.own.lic, f.pathstr, "file-header")

(* REUSE.toml files whose directory is an ancestor of (or equal to the directory   *)
(* of) f, outermost first; the generator lists tomls outermost first per chain.    *)
RelChars(f, t) ==                                  \* f's path relative to t's directory, as characters
   LET skip == IF t.dir = <<>> THEN 0 ELSE Len(t.dirchars) + 1
   IN  SubSeq(f.pchars, skip + 1, Len(f.pchars))
(* a REUSE.toml that the VCS ignores (or that lies in an ignored directory) is not part of the project *)
TomlIgnored(t) == "ignored" \in DOMAIN t /\ t.ignored
Above(f, t) == IsPrefixSeq(t.dir, f.path) /\ Len(t.dir) < Len(f.path) /\ ~TomlIgnored(t)

TableMatches(tb, chars) == \E j \in 1..Len(tb.globs) : Matches(Narrow(tb.globs[j]), chars)
LastMatch(t, f) ==                                 \* index of the last matching table, 0 if none
   LET ms == {i \in 1..Len(t.tables) : TableMatches(t.tables[i], RelChars(f, t))}
   IN  IF ms = {} THEN 0 ELSE CHOOSE i \in ms : \A j \in ms : j <= i

RECURSIVE SortByDepth(_)
SortByDepth(S) == IF S = {} THEN <<>>
                  ELSE LET m == CHOOSE x \in S : \A y \in S : Len(x.dir) <= Len(y.dir)
                       IN  <<m>> \o SortByDepth(S \ {m})
(* matching tables above f, outermost first: sequence of [toml, tb] *)
Matching(p, f) ==
   LET ts == {p.tomls[i] : i \in {i \in 1..Len(p.tomls) : Above(f, p.tomls[i]) /\ LastMatch(p.tomls[i], f) # 0}}
       srt == SortByDepth(ts)
   IN  [i \in 1..Len(srt) |-> [toml |-> srt[i], tb |-> srt[i].tables[LastMatch(srt[i], f)]]]
(* the outermost override hides everything deeper *)
Visible(p, f) ==
   LET m == Matching(p, f)
       ov == {i \in 1..Len(m) : m[i].tb.prec = "override"}
   IN  IF ov = {} THEN m ELSE SubSeq(m, 1, CHOOSE i \in ov : \A j \in ov : i <= j)

TomlSrc(t) == t.srcstr                             \* "REUSE.toml", "a/REUSE.toml", ...
TbItems(e, kinds) ==
   (IF "cop" \in kinds THEN CopItems(e.tb.cop, TomlSrc(e.toml), "reuse-toml") ELSE {})
     \cup (IF "lic" \in kinds THEN LicItems(e.tb.lic, TomlSrc(e.toml), "reuse-toml") ELSE {})
Provides(e, kind) == IF kind = "cop" THEN Len(e.tb.cop) > 0 ELSE Len(e.tb.lic) > 0

(* the innermost visible `closest` table that provides kind *)
NearestItems(vis, kind) ==
   LET c == {i \in 1..Len(vis) : vis[i].tb.prec = "closest" /\ Provides(vis[i], kind)}
   IN  IF c = {} THEN {} ELSE TbItems(vis[CHOOSE i \in c : \A j \in c : j <= i], {kind})

Dep5Match(pg, f) == \E j \in 1..Len(pg.pats) : Matches(pg.pats[j], f.pchars)      \* pats are already items (dep5 language)
Dep5Items(p, f) ==
   LET ms == {i \in 1..Len(p.dep5) : Dep5Match(p.dep5[i], f)}
   IN  IF ms = {} THEN {}
       ELSE LET pg == p.dep5[CHOOSE i \in ms : \A j \in ms : j <= i]               \* last matching paragraph
            IN  CopItems(pg.cop, ".reuse/dep5", "dep5") \cup LicItems(pg.lic, ".reuse/dep5", "dep5")

InfoOf(p, f) ==
   IF Len(p.dep5) > 0 THEN Dep5Items(p, f) \cup FileInfo(f)                         \* dep5 always aggregates
   ELSE
   LET vis  == Visible(p, f)
       ov   == {i \in 1..Len(vis) : vis[i].tb.prec = "override"}
       agg  == UNION {TbItems(vis[i], {"cop", "lic"}) : i \in {i \in 1..Len(vis) : vis[i].tb.prec = "aggregate"}}
       own  == IF ov # {} THEN {} ELSE FileInfo(f)                                   \* override: the file is not read
       need == {k \in {"cop", "lic"} : ~\E it \in own : it.kind = k}
       sup  == UNION {NearestItems(vis, k) : k \in need}
   IN  UNION {TbItems(vis[i], {"cop", "lic"}) : i \in ov} \cup agg \cup own \cup sup

-----------------------------------------------------------------------------------
(*                                  C06: Inventory                                 *)
RECURSIVE Keys(_)
Keys(t) == IF "key" \in DOMAIN t THEN {t}
           ELSE IF t.op = "WITH" THEN Keys(t.l) \cup {t.x}
           ELSE Keys(t.l) \cup Keys(t.r)

Cls(p, s) == IF s \in DOMAIN p.cls THEN p.cls[s] ELSE "unk"
OnList(p, s) == Cls(p, s) \in {"cur", "dep", "exc"}

(* identifier a LICENSES/ entry provides: whole name if that is an SPDX identifier *)
(* (then it lacks an extension), otherwise the name without its last extension.    *)
EntryId(p, en) == IF OnList(p, en.name) THEN en.name ELSE en.stem
Entries(p)  == {p.licfiles[i] : i \in {i \in 1..Len(p.licfiles) : ~p.licfiles[i].dotlicense}}
Provided(p) == {EntryId(p, en) : en \in Entries(p)}
NoExt(p)    == {en.name : en \in {en \in Entries(p) : OnList(p, en.name)}}

(* a LicenseRef- becomes known by being provided *)
(* bad iff neither on the SPDX lists nor a LicenseRef- (whether LICENSES/ provides the LicenseRef- or not: an unprovided *)
(* one is MISSING).  Until repair 5571b9e the tool listed a used, unprovided LicenseRef- as bad too, and this definition *)
(* had followed the tool instead of the statement (KF-C06-2).                                                          *)
KnownId(p, s) == OnList(p, s) \/ Cls(p, s) = "ref"

(* every identifier inside a compound expression counts, from every source *)
UsedOf(p, f)  == UNION {Keys(it.tree) : it \in {it \in InfoOf(p, f) : it.kind = "lic"}}
Covered(p)    == {i \in 1..Len(p.files) : p.files[i].cov}                  \* cov: as decided for this event (see Trace_Project)
Used(p)       == UNION {UsedOf(p, p.files[i]) : i \in {i \in Covered(p) : ~p.files[i].unreadable}}
UsedKeys(p)   == {u.key : u \in Used(p)}

(* missing iff used (with or without "+") and not provided *)
MissingOf(p, f) == {u.key : u \in {u \in UsedOf(p, f) : {u.key, u.base} \cap Provided(p) = {}}}
Missing(p)    == {u.key : u \in {u \in Used(p) : {u.key, u.base} \cap Provided(p) = {}}}
(* unused iff neither the identifier nor its "+" form is used *)
Unused(p)     == {id \in Provided(p) : ~\E u \in Used(p) : u.key = id \/ (u.base = id /\ u.key # u.base)}
(* bad iff neither on the SPDX lists nor a (provided) LicenseRef- *)
BadUsed(p)    == {u.key : u \in {u \in Used(p) : ~KnownId(p, u.key) /\ ~KnownId(p, u.base)}}
BadProvided(p) == {id \in Provided(p) : ~KnownId(p, id)}
(* (a "lenient cell" used to sit here; it accepted what the tool did and is gone) *)
BadLenient(p) == {}
Deprecated(p) == {id \in Provided(p) : Cls(p, id) = "dep"}

NoCop(p) == {i \in Covered(p) : ~p.files[i].unreadable /\ ~\E it \in InfoOf(p, p.files[i]) : it.kind = "cop"}
NoLic(p) == {i \in Covered(p) : ~p.files[i].unreadable /\ ~\E it \in InfoOf(p, p.files[i]) : it.kind = "lic"}
ReadErr(p) == {i \in Covered(p) : p.files[i].unreadable}

-----------------------------------------------------------------------------------
(* M: the report mechanism (FileReport.generate, ProjectReport.generate,           *)
(* unused_licenses, is_compliant) as set tests, for M |= R checks.                 *)
MLicenseMap(p) == {s \in DOMAIN p.cls : p.cls[s] \in {"cur", "dep", "exc"}}
                    \cup {id \in Provided(p) : Cls(p, id) = "ref"}              \* _find_licenses registers LicenseRef-
MIdentifiers(u) == {u.key} \cup (IF u.base # u.key THEN {u.base} ELSE {})
MBadOf(p, f)     == {u.key : u \in {u \in UsedOf(p, f) : MIdentifiers(u) \cap MLicenseMap(p) = {}
                                                            /\ \A x \in MIdentifiers(u) : Cls(p, x) # "ref"}}
MMissingOf(p, f) == {u.key : u \in {u \in UsedOf(p, f) : MIdentifiers(u) \cap Provided(p) = {}}}
MUsed(p)   == UNION {{u.key : u \in UsedOf(p, p.files[i])} : i \in Covered(p) \ ReadErr(p)}
MUnused(p) == {lic \in Provided(p) : ~(lic \in MUsed(p) \/ (lic \o "+") \in MUsed(p))}
MBadProvided(p) == {name \in Provided(p) : name \notin MLicenseMap(p)}
MDeprecated(p)  == {name \in Provided(p) : name \in MLicenseMap(p) /\ Cls(p, name) = "dep"}

MMissing(p) == UNION {MMissingOf(p, p.files[i]) : i \in Covered(p) \ ReadErr(p)}
MBad(p)     == UNION {MBadOf(p, p.files[i]) : i \in Covered(p) \ ReadErr(p)} \cup MBadProvided(p)
MCompliant(p) ==    \* `not any((missing, unused, bad, deprecated, without_extension, no copyright, no licence, read errors))`
   /\ MMissing(p) = {} /\ MUnused(p) = {} /\ MBad(p) = {} /\ MDeprecated(p) = {} /\ NoExt(p) = {}
   /\ NoCop(p) = {} /\ NoLic(p) = {} /\ ReadErr(p) = {}

-----------------------------------------------------------------------------------
(*                                   C01: verdict                                  *)
Compliant(p) ==
   /\ Missing(p) = {} /\ Unused(p) = {} /\ BadUsed(p) = {} /\ BadProvided(p) = {}
   /\ Deprecated(p) = {} /\ NoExt(p) = {} /\ NoCop(p) = {} /\ NoLic(p) = {} /\ ReadErr(p) = {}
=================================================================================
