CONSTANTS
  MaxLen = 6
  Forms = {"bare"}
SPECIFICATION Spec
INVARIANT TypeOK
INVARIANT ScannerIsR
INVARIANT MechanismMeetsRequirement
INVARIANT StartOpens
INVARIANT StrayEndIsText
CHECK_DEADLOCK FALSE
