----------------------------------- MODULE Reuse -----------------------------------
(* The whole tool as a state machine over a file system, for C15 ("commands touch     *)
(* only what they are documented to touch") and cross-command laws.                   *)
(*                                                                                    *)
(* fs      : path -> version (a counter standing for content + metadata); paths of    *)
(*           the project AND of a sentinel directory outside it that symlinks point to *)
(* cmd     : the command just executed   [kind, targets, rec, out]                    *)
(* Every command may change, create or remove ONLY paths in Footprint(cmd); what it    *)
(* does inside the footprint is left open here (the other modules say).               *)
EXTENDS Footprint, TLC, Json

CONSTANTS Project,      \* set of project paths (strings)
          Sentinel,     \* set of outside paths
          Covered,      \* project paths that are covered files
          Symlinks,     \* project paths that are symbolic links
          MaxCmds

VARIABLES fs, hist
vars == <<fs, hist>>
All == Project \cup Sentinel

Footprint(c) == FootprintOf(c, Covered, Symlinks)

Cmds ==
   {[kind |-> k, targets |-> {}, out |-> ""] : k \in Readers}
   \cup {[kind |-> "spdx-o", targets |-> {}, out |-> "out.spdx"]}
   \cup {[kind |-> "annotate", targets |-> T, out |-> ""] : T \in {{"src/a.py"}, {"link.py"}, {"src/a.py", "bin.dat"}, {"docs/readme.md", "link.py"}, {"src/c.py"}, {"bin2.dat", "data.unknownext"}}}
   \cup {[kind |-> "annotate-r", targets |-> T, out |-> ""] : T \in {{""}, {"src"}, {"linkdir"}, {"docs"}, {"src/a.py"}, {"link.py", "docs"}}}
   \cup {[kind |-> "convert-dep5", targets |-> {}, out |-> ""]}
   \cup {[kind |-> "download", targets |-> T, out |-> ""] : T \in {{"0BSD"}, {"MIT"}, {"0BSD", "ISC"}, {"../docs/MIT"}}}
   \cup {[kind |-> "download-src", targets |-> T, out |-> ""] : T \in {{"LicenseRef-custom"}, {"LicenseRef-new"}}}

Init == fs = [p \in All |-> 0] /\ hist = <<>>
(* what a command does inside its footprint is left open; to keep the model small the explored effects are: *)
(* nothing, the whole footprint, or any single path of it                                                  *)
Effects(c) == {{}, Footprint(c)} \cup {{p} : p \in Footprint(c)}
Exec(c) == /\ Len(hist) < MaxCmds
           /\ \E touched \in Effects(c) :
                 fs' = [p \in (DOMAIN fs) \cup touched |->
                          IF p \in touched /\ (p \notin DOMAIN fs \/ MayModifyExisting(c)) THEN (IF p \in DOMAIN fs THEN fs[p] + 1 ELSE 1)
                          ELSE fs[p]]
           /\ hist' = Append(hist, c)
Next == \E c \in Cmds : Exec(c)
Spec == Init /\ [][Next]_vars

OutsideFootprintUntouched ==                                          \* C15
   [][\A p \in DOMAIN fs : p \notin Footprint(hist'[Len(hist')]) => (p \in DOMAIN fs' /\ fs'[p] = fs[p])]_vars
SentinelNeverTouched == \A p \in Sentinel : fs[p] = 0               \* never through a symlink
ReadersChangeNothing == [][hist'[Len(hist')].kind \in Readers => fs' = fs]_vars
RECURSIVE SetToSeq(_)
SetToSeq(T) == IF T = {} THEN <<>> ELSE LET x == CHOOSE y \in T : TRUE IN <<x>> \o SetToSeq(T \ {x})
histview == hist
Emit == hist # <<>> => PrintT(ToJson([hist |-> [i \in 1..Len(hist) |-> [kind |-> hist[i].kind, targets |-> SetToSeq(hist[i].targets), out |-> hist[i].out]]]))
=================================================================================
