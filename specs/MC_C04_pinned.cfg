CONSTANTS
  Depth = 2
  MaxTables = 1
  WithDep5 = FALSE
  SampleN = 0
SPECIFICATION Spec
INVARIANT PinnedMeetsRequirement
CHECK_DEADLOCK FALSE
