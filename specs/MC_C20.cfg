CONSTANTS
  MaxSet = 3
  GenPrefixes = {"spdx", "string_c", "symbol", "spdx_string_symbol"}
  SampleN = 0
SPECIFICATION Spec
INVARIANT MechanismMeetsRequirement
INVARIANT MakeIsInjective
CHECK_DEADLOCK FALSE
