CONSTANTS
  Depth = 3
  MaxTables = 2
  WithDep5 = FALSE
  SampleN = 100
SPECIFICATION SampleSpec
CONSTRAINT SampleBound
INVARIANT Emit
INVARIANT MechanismMeetsRequirement
CHECK_DEADLOCK FALSE
