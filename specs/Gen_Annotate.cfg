CONSTANTS
  Files = {"f1"}
  Bundles <- BundleDef
  MaxSteps = 2
  AllowFail = FALSE
SPECIFICATION Spec
INVARIANT Emit
CHECK_DEADLOCK FALSE
