------------------------------- MODULE Trace_Workflow -------------------------------
(* Trace validation against Workflow.tla: one event per command of a command sequence  *)
(* run on a real project.  Before and after every command the abstract state is         *)
(* observed through the tool's own linter (what each file declares) and the LICENSES/   *)
(* directory; the event is accepted iff the observed step is the step Workflow allows:  *)
(*      post = Apply(cmd, pre)   and   exit = ExitOf(cmd, pre)                           *)
(* and the report the linter prints is the one Workflow derives from the declarations.  *)
(*   e.cmd [kind, files, cop, lic]   e.pre / e.post [info : file -> [cop, lic], present,*)
(*   missing, unused, nocop, nolic, glob]   e.exit   e.crash                            *)
(*   e.doc (for spdx): File sections of the document, file -> [cop, lic]                *)
(* (info is what the linter SEES: own declarations aggregated with dep5 / REUSE.toml)   *)
EXTENDS Workflow, IOUtils, TLCExt
Tr == ndJsonDeserialize(IOEnv.TRACE_FILE)
VARIABLE l
SeqSet(s) == {s[i] : i \in 1..Len(s)}
InfoOfObs(o) == [f \in DOMAIN o.info |-> [cop |-> o.info[f].cop, lic |-> SeqSet(o.info[f].lic)]]
OwnOfObs(o) == [f \in DOMAIN o.own |-> [cop |-> o.own[f].cop, lic |-> SeqSet(o.own[f].lic)]]
CmdOf(e) == [kind |-> e.cmd.kind, files |-> SeqSet(e.cmd.files), cop |-> e.cmd.cop, lic |-> SeqSet(e.cmd.lic), dot |-> e.cmd.dot, skip |-> e.cmd.skip]
ReportOK(o) == LET i == InfoOfObs(o)
                   p == SeqSet(o.present)
               IN  /\ SeqSet(o.missing) = Missing(i, p)
                   /\ SeqSet(o.unused) = Unused(i, p)
                   /\ SeqSet(o.nocop) = NoCop(i)
                   /\ SeqSet(o.nolic) = NoLic(i)
Lost(i, j) == \E f \in DOMAIN i : (i[f].cop /\ ~j[f].cop) \/ ~(i[f].lic \subseteq j[f].lic)
(* one clause per property family, each judged on its own; all failing ones are printed *)
Clauses(e) ==
   LET c  == CmdOf(e)
       i  == InfoOfObs(e.pre)
       p  == SeqSet(e.pre.present)
       i2 == InfoOfObs(e.post)
       p2 == SeqSet(e.post.present)
       g  == e.pre.glob
       g2 == e.post.glob
       same == DOMAIN i2 = DOMAIN i
       dl == c.kind \in {"download", "download-all"}
       c17 == IF c.kind # "convert-dep5" THEN ""
              ELSE IF e.exit # ExitOfG(c, i, p, g) THEN "C17.exit-status"
              ELSE IF g2 # ApplyGlob(c, g) THEN "C17.declaration-not-moved-from-dep5-to-REUSE.toml"
              ELSE IF i2 # i \/ p2 # p THEN "C17.attribution-changed-by-conversion"
              ELSE ""
       c03 == IF ~same THEN "C03.set-of-covered-files-changed-by-a-command" ELSE ""
       c01 == IF ~ReportOK(e.post) THEN "C01.report-is-not-the-one-the-declarations-imply"
              ELSE IF c.kind = "lint" /\ e.exit # ExitOf(c, i, p) THEN "C01.exit-status-is-not-the-verdict"
              ELSE ""
       c13 == IF c.kind = "lint-file" /\ e.exit # ExitOf(c, i, p) THEN "C13.lint-file-exit-status-is-not-the-named-files-verdict" ELSE ""
       o  == OwnOfObs(e.pre)
       o2 == OwnOfObs(e.post)
       s  == SeqSet(e.pre.sib)
       s2 == SeqSet(e.post.sib)
       c15 == IF c.kind # "convert-dep5" /\ g2 # g THEN "C15.command-moved-the-project-wide-declaration"
              ELSE IF c.kind \in {"lint", "lint-file", "spdx"} /\ (i2 # i \/ p2 # p \/ s2 # s) THEN "C15.read-only-command-changed-what-the-project-declares"
              ELSE IF s2 # ApplySib(c, o, s) THEN "C15.set-of-license-siblings-is-not-the-one-the-command-implies"
              ELSE IF c.kind = "annotate" /\ p2 # p THEN "C15.annotate-changed-LICENSES"
              ELSE IF dl /\ i2 # i THEN "C15.download-changed-declarations"
              ELSE ""
       c18 == IF c.kind = "spdx" /\ e.exit # 0 THEN "C18.spdx-failed-on-a-readable-project"
              ELSE IF e.hasDoc /\ [f \in DOMAIN e.doc |-> [cop |-> e.doc[f].cop, lic |-> SeqSet(e.doc[f].lic)]] # i
                   THEN "C18.file-sections-are-not-what-lint-attributes"     \* one section per covered file, its licences and whether it names a holder
              ELSE ""
       c09 == IF c.kind = "annotate" /\ same /\ Lost(i, i2) THEN "C09.previously-declared-information-dropped" ELSE ""
       \* what each file declares itself (header or sibling) after the run is what the command implies - --skip-existing and
       \* --force-dot-license included -, and the linter's view is that aggregated with the project-wide declaration
       ex  == ApplyInfoS(c, o, s)
       c07 == IF c.kind = "annotate" /\ same /\ DOMAIN o = DOMAIN i /\
                 (e.exit # 0 \/ o2 # ex \/ i2 # [f \in DOMAIN i |-> [cop |-> i[f].cop \/ ex[f].cop, lic |-> i[f].lic \cup ex[f].lic]])
              THEN "C07.read-back-differs-from-request" ELSE ""
       c19 == IF ~dl THEN ""
              ELSE IF ~(p \subseteq p2) THEN "C19.existing-text-removed"
              ELSE IF p2 # ApplyPresent(c, i, p) THEN "C19.supplied-set-is-not-the-requested-or-missing-set"
              ELSE IF e.exit # ExitOf(c, i, p) THEN "C19.exit-status"
              ELSE ""
   IN  IF e.crash # "" THEN {"crash"}
       ELSE {x \in {c17, c03, c01, c13, c15, c18, c09, c07, c19} : x # ""}
KnownFinding(e, c) == ""
TInit == l = 1 /\ info = <<>> /\ present = {} /\ hist = <<>> /\ start = <<>> /\ glob = "none" /\ sib = {}
TNext == /\ l <= Len(Tr)
         /\ LET e == Tr[l]
            IN  \A c \in Clauses(e) : PrintT(<<"REJECT", e.tid, e.k, c, KnownFinding(e, c), e.label>>)
         /\ l' = l + 1 /\ UNCHANGED vars
=====================================================================================
