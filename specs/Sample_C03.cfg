CONSTANTS
  N = 6
  Git = FALSE
  Ctxs <- CtxsNoGit
  NameClasses <- AllNameClasses
  Types = {"text", "binary", "empty", "symlink", "special"}
  Wants = {"none"}
  SampleN = 100
SPECIFICATION SampleSpec
CONSTRAINT SampleBound
CHECK_DEADLOCK FALSE
INVARIANT Emit
INVARIANT MechanismMeetsRequirement
