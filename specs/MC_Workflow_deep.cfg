CONSTANTS
  Files = {"a.py", "docs/c.md"}
  Lics = {"0BSD", "LicenseRef-x"}
  GlobFiles = {"docs/c.md"}
  GlobLic = "0BSD"
  MaxCmds = 2
  InitPick = "few"
SPECIFICATION Spec
INVARIANT ComplianceReachable
INVARIANT DownloadAllExact
INVARIANT AnnotateIdempotent
INVARIANT DownloadPartial
PROPERTY Monotone
PROPERTY ReadersReadOnly
PROPERTY ConversionKeepsAttribution
PROPERTY OnlyConvertMovesGlob
PROPERTY SiblingsOnlyGrow
PROPERTY SkipExistingLeavesDeclaringTextsAlone
INVARIANT LintFileVsLint
CHECK_DEADLOCK FALSE
