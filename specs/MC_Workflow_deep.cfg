CONSTANTS
  Files = {"a.py", "src/b.c"}
  Lics = {"MIT", "LicenseRef-x"}
  MaxCmds = 3
  InitPick = "all"
SPECIFICATION Spec
INVARIANT ComplianceReachable
INVARIANT DownloadAllExact
INVARIANT AnnotateIdempotent
INVARIANT DownloadPartial
PROPERTY Monotone
PROPERTY ReadersReadOnly
CHECK_DEADLOCK FALSE
