--------------------------------- MODULE ConvertDep5 ---------------------------------
(* C17, part 2: the convert-dep5 command as steps with a fault point after each.      *)
(*   Check (is there a dep5?) -> Render (build the text) -> WriteToml -> UnlinkDep5   *)
(* A crash / error may happen at any step.  Safety: dep5 disappears only after        *)
(* REUSE.toml is complete; without dep5 nothing happens at all.                       *)
EXTENDS Integers, TLC
VARIABLES dep5, toml, pc, exit
vars == <<dep5, toml, pc, exit>>
Init == dep5 \in BOOLEAN /\ toml = "absent" /\ pc = "check" /\ exit = -1
Check == /\ pc = "check"
         /\ (IF dep5 THEN pc' = "render" /\ exit' = exit ELSE pc' = "done" /\ exit' = 2)
         /\ UNCHANGED <<dep5, toml>>
Render == pc = "render" /\ pc' = "write" /\ UNCHANGED <<dep5, toml, exit>>
WriteToml == /\ pc = "write"
             /\ \/ (toml' = "complete" /\ pc' = "unlink" /\ exit' = exit)
                \/ (toml' \in {"absent", "partial"} /\ pc' = "done" /\ exit' = 1)      \* the write fails
             /\ UNCHANGED dep5
UnlinkDep5 == pc = "unlink" /\ dep5' = FALSE /\ pc' = "done" /\ exit' = 0 /\ UNCHANGED toml
Crash == pc \in {"render", "write", "unlink"} /\ pc' = "done" /\ exit' = 1 /\ UNCHANGED <<dep5, toml>>
Next == Check \/ Render \/ WriteToml \/ UnlinkDep5 \/ Crash
Spec == Init /\ [][Next]_vars
Dep5OnlyGoesAfterToml == [][(dep5 /\ ~dep5') => toml = "complete"]_vars
NeverBothGone == (pc # "check" /\ exit # 2) => (dep5 \/ toml = "complete")      \* the information is never lost
RefusesWithoutDep5 == exit = 2 => toml = "absent"
=================================================================================
