--------------------------------- MODULE AnnotateMC ---------------------------------
(* Concrete bundles and configurations for Annotate.tla: model check (with failing  *)
(* subsets) and generation of histories (without) for the replay harness.           *)
EXTENDS Annotate, Json
N(p, a, b, h) == [pfx |-> p, y1 |-> a, y2 |-> b, holder |-> h]
B(c, l, k, m, s) == [cop |-> c, lic |-> l, con |-> k, merge |-> m, skip |-> s]
BundleDef ==
   [ B1  |-> B({N("spdx", 2024, 2024, "H1")}, {"MIT"}, {}, FALSE, FALSE),
     B2  |-> B({N("string_c", 2019, 2019, "H2")}, {"0BSD"}, {}, FALSE, FALSE),
     B3  |-> B({}, {}, {"C1"}, FALSE, FALSE),
     B4  |-> B({}, {"Apache-2.0"}, {}, FALSE, FALSE),
     B5  |-> B({N("spdx", 2015, 2015, "H1")}, {}, {}, TRUE, FALSE),
     B6  |-> B({N("spdx_symbol", 0, 0, "H3")}, {"MIT"}, {}, FALSE, FALSE),
     B7  |-> B({N("spdx", 2021, 2023, "H1")}, {}, {}, FALSE, FALSE),
     B8  |-> B({N("spdx", 2024, 2024, "H1")}, {"MIT"}, {}, FALSE, TRUE),
     B9  |-> B({N("spdx", 2024, 2024, "H1"), N("spdx", 2024, 2024, "H2")}, {"MIT", "ISC"}, {"C2"}, FALSE, FALSE),
     B10 |-> B({N("string", 2030, 2030, "H2")}, {}, {}, TRUE, FALSE),
     B11 |-> B({N("spdx", 2016, 2018, "H1")}, {"MIT"}, {}, TRUE, FALSE) ]     \* a year range AND --merge-copyrights
SmallBundles == [b \in {"B1", "B2", "B3", "B5", "B8"} |-> BundleDef[b]]

RECURSIVE SetToSeq(_)
SetToSeq(T) == IF T = {} THEN <<>> ELSE LET x == CHOOSE y \in T : TRUE IN <<x>> \o SetToSeq(T \ {x})
BundleJson(bn) == LET b == Bundles[bn] IN [name |-> bn, cop |-> SetToSeq(b.cop), lic |-> SetToSeq(b.lic), con |-> SetToSeq(b.con),
                                           merge |-> b.merge, skip |-> b.skip]
Emit == hist # <<>> => PrintT(ToJson([hist |-> [i \in 1..Len(hist) |-> [b |-> BundleJson(hist[i].b), fs |-> SetToSeq(hist[i].fs)]],
                                        failed |-> SetToSeq(last.failed)]))
=================================================================================
