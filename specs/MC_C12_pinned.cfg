CONSTANTS
  MaxLen = 3
  Forms = {"bare"}
SPECIFICATION Spec
INVARIANT PinnedDeviates
CHECK_DEADLOCK FALSE
