CONSTANTS
  N = 2
  Classes = {"cur", "dep", "exc", "ref", "unk"}
  Uses = {"none", "alone", "plus", "and", "or", "with", "paren", "twotags", "absorb", "dotlicense", "toml", "dep5"}
  Provs = {"absent", "txt", "md", "noext", "subdir", "plusname", "withdotlicense"}
  SampleN = 100
SPECIFICATION SampleSpec
CONSTRAINT SampleBound
CHECK_DEADLOCK FALSE
INVARIANT Emit
INVARIANT MechanismMeetsRequirement
