------------------------------- MODULE Trace_RootTable -------------------------------
(* One event = `reuse lint --json` started as a cell of RootTable.tla says; e.seen is    *)
(* the directory whose files were listed ("above" | "project" | "src" | "?"),            *)
(* e.licensesFound: the MIT text of that directory's LICENSES/ was found (each of the    *)
(* three directories has one).                                                           *)
EXTENDS RootTable, IOUtils, TLCExt
Tr == ndJsonDeserialize(IOEnv.TRACE_FILE)
VARIABLE l
Clause(e) == IF e.crash # "" THEN "crash"
             ELSE IF e.exit \notin {0, 1} THEN "C14.lint-refused-a-plain-project"
             ELSE IF e.seen # RRoot(e.c) THEN "C14.the-project-is-not-the-directory-the-table-names"
             ELSE IF ~e.licensesFound THEN "C14.licence-texts-looked-for-in-another-directory-than-the-files"
             ELSE ""
KnownFinding(e, c) == ""
TInit == l = 1 /\ phase = "start" /\ cell = CHOOSE c \in Cells : TRUE
TNext == /\ l <= Len(Tr)
         /\ LET e == Tr[l]
                x == Clause(e)
            IN  IF x = "" THEN TRUE ELSE PrintT(<<"REJECT", e.tid, 0, x, KnownFinding(e, x), e.label>>)
         /\ l' = l + 1 /\ UNCHANGED vars
=====================================================================================
