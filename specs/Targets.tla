---------------------------------- MODULE Targets ----------------------------------
(* Where does `reuse annotate` put the header of ONE named file - and what happens to  *)
(* the rest of the invocation?  The decision table over                                *)
(*   kind : what the file is   - text of a commentable type, text of a type that takes *)
(*          no comments, text of an unrecognised type, binary content behind a         *)
(*          commentable name, binary content behind an unrecognised name               *)
(*   sib  : what FILE.license is - absent, a regular file, a directory, a symbolic     *)
(*          link to a file (outside the project), a dangling symbolic link             *)
(*   mode : none | --force-dot-license | --fallback-dot-license | --skip-unrecognised  *)
(*   style: --style given                                                              *)
(* M (MDest) transcribes the order of the checks in cli/annotate.py (all_paths,        *)
(* verify_paths_comment_style, the loop) and _annotate.add_header_to_file.             *)
(* R is the set of rules the manual page, the REUSE specification (a FILE.license is   *)
(* read instead of FILE) and the properties C07 / C11 / C15 impose on that table.      *)
(* TLC checks M |= R over the whole table and prints every cell; the harness builds    *)
(* each cell for real (next to a second, ordinary file) and Trace_Targets compares     *)
(* what happened with the cell of M - and with R again.                                *)
EXTENDS Naturals, Sequences, FiniteSets, TLC, Json

Kinds == {"text-comm", "text-uncomm", "text-unrec", "bin-comm", "bin-unrec"}
Sibs  == {"absent", "file", "dir", "link", "dangling"}
Modes == {"none", "force", "fallback", "skipu"}
Cells == {c \in [kind : Kinds, sib : Sibs, mode : Modes, style : BOOLEAN] : ~(c.mode = "skipu" /\ c.style)}     \* (--style excludes --skip-unrecognised)

RecognisedByName(k) == k \in {"text-comm", "text-uncomm", "bin-comm"}
Binary(k)           == k \in {"bin-comm", "bin-unrec"}
Uncommentable(k)    == k = "text-uncomm"

Out(where, status) == [where |-> where, status |-> status]
(* where: "infile" | "sibling" | "none";  status: "ok" | "skipped" | "error" (this file fails, exit 1, others processed) | *)
(*        "usage" (exit 2, nothing of the whole invocation is touched)                                                    *)

(* ---------------------------------------------------------------- M: the code's order of checks *)
SiblingRoute(sib) == CASE sib = "dangling" -> Out("none", "skipped")      \* never written through, not even to create the target
                       [] sib = "dir"      -> Out("none", "error")
                       [] OTHER            -> Out("sibling", "ok")
MDest(c) ==
   IF c.sib = "link" THEN Out("none", "skipped")                             \* all_paths: FILE.license is a file (through the link) and a symlink: dropped
   ELSE IF c.sib = "file" THEN Out("sibling", "ok")                          \* all_paths: FILE -> FILE.license; a .license path always has a style
   ELSE IF c.mode = "none" /\ ~c.style /\ ~RecognisedByName(c.kind) THEN Out("none", "usage")   \* verify_paths_comment_style
   ELSE IF Binary(c.kind) \/ Uncommentable(c.kind) \/ c.mode = "force" THEN SiblingRoute(c.sib)
   ELSE IF RecognisedByName(c.kind) \/ c.style THEN Out("infile", "ok")
   ELSE IF c.mode = "skipu" THEN Out("none", "skipped")
   ELSE SiblingRoute(c.sib)                                                  \* text of an unrecognised type with --fallback-dot-license

(* ---------------------------------------------------------------- R: what the table has to satisfy *)
(* after the run, is FILE.license a regular file (which the linter then reads INSTEAD of FILE)? *)
SiblingIsFileAfter(c, o) == c.sib = "file" \/ (o.where = "sibling" /\ o.status = "ok")
R_ReadBack(c, o)   == o.status = "ok" => (o.where = "sibling" <=> SiblingIsFileAfter(c, o))       \* C07: the header is where the linter looks
R_NoLink(c, o)     == c.sib \in {"link", "dangling"} => o.where # "sibling"                         \* C15: never through a symbolic link
R_LinkShadows(c, o) == c.sib = "link" => o.where = "none"                                           \* (the linter reads through a live link: nothing can be added)
R_Usage(c, o)      == o.status = "usage" <=> (c.sib \notin {"file", "link"} /\ c.mode = "none" /\ ~c.style /\ ~RecognisedByName(c.kind))
                                                                                                    \* manual: "aborting when a file extension does not have an associated comment style"
R_NotInto(c, o)    == (Binary(c.kind) \/ Uncommentable(c.kind) \/ c.mode = "force") => o.where # "infile"   \* manual: --force-dot-license; binary / uncommentable files
R_Skip(c, o)       == (c.mode = "skipu" /\ c.kind = "text-unrec" /\ c.sib \notin {"file", "link"}) => o = Out("none", "skipped")
R_Fallback(c, o)   == (c.mode = "fallback" /\ c.kind = "text-unrec" /\ ~c.style /\ c.sib = "absent") => o = Out("sibling", "ok")
R_Plain(c, o)      == (c.kind = "text-comm" /\ c.mode # "force" /\ c.sib \in {"absent", "dir", "dangling"}) => o = Out("infile", "ok")
R_ErrorOnlyForDir(c, o) == o.status = "error" => c.sib = "dir"
R_Where(c, o)      == (o.status # "ok") <=> (o.where = "none")
Rules(c, o) == /\ R_ReadBack(c, o) /\ R_NoLink(c, o) /\ R_LinkShadows(c, o) /\ R_Usage(c, o) /\ R_NotInto(c, o)
               /\ R_Skip(c, o) /\ R_Fallback(c, o) /\ R_Plain(c, o) /\ R_ErrorOnlyForDir(c, o) /\ R_Where(c, o)

(* ---------------------------------------------------------------- model checking / emission *)
VARIABLES cell, phase
vars == <<cell, phase>>
Init == phase = "start" /\ cell = CHOOSE c \in Cells : TRUE
Next == phase = "start" /\ phase' = "cell" /\ cell' \in Cells
Spec == Init /\ [][Next]_vars
MechanismMeetsRequirement == phase = "cell" => Rules(cell, MDest(cell))
(* the other file of the invocation (an ordinary commentable one) is annotated unless the invocation is a usage error *)
OtherFile(c) == IF MDest(c).status = "usage" THEN "untouched" ELSE "annotated"
ExitOf(c) == CASE MDest(c).status = "usage" -> 2 [] MDest(c).status = "error" -> 1 [] OTHER -> 0
Emit == phase = "cell" => PrintT(ToJson([c |-> cell, m |-> MDest(cell), other |-> OtherFile(cell), exit |-> ExitOf(cell)]))
====================================================================================
