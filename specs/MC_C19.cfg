CONSTANTS
  Ids = {"A", "B", "LicenseRef-r"}
  RefIds = {"LicenseRef-r"}
  NetOutcomes = {"ok", "http", "conn"}
  SourceHas = {}
SPECIFICATION Spec
INVARIANT NeverOverwrites
INVARIANT OnlyLicenseFiles
INVARIANT NoPartialFile
INVARIANT RefNeedsNoNetwork
INVARIANT ExitStatusTellsFailure
PROPERTY Terminates
CHECK_DEADLOCK FALSE
