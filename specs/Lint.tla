----------------------------------- MODULE Lint -----------------------------------
(* C01 - the lint verdict.  A compliant-by-construction project with injected      *)
(* defects of every category, and a defect ledger that is independent of R:        *)
(*   f1  src/f1.py    header        info i1 in {both, cop, lic, none, bad, unreadable} *)
(*   f2  img/f2.bin   .license      info i2 in {both, cop, lic, none, bad}         *)
(*   f3  docs/f3.txt  REUSE.toml    info i3 in {both, cop, lic, none}   (closest)  *)
(*   inv subset of {missing, unused, badused, deprecated, noext}, each with its    *)
(*       own user file and LICENSES/ entry                                         *)
(* plus base.py (compliant) and files that are not covered and must never show up. *)
(* Model-checked: Compliant(Proj) <=> ledger empty; every R category is non-empty  *)
(* exactly when the ledger says so; M |= R for the verdict.                        *)
EXTENDS Project, TLC, Json

VARIABLES i1, i2, i3, inv, phase
vars == <<i1, i2, i3, inv, phase>>
InvDefects == {"missing", "unused", "badused", "deprecated", "noext"}
Init == /\ i1 \in {"both", "cop", "lic", "none", "bad", "unreadable"}
        /\ i2 \in {"both", "cop", "lic", "none", "bad"}
        /\ i3 = "both" /\ inv = {} /\ phase = "files"
Next == /\ phase = "files" /\ phase' = "case"
        /\ i3' \in {"both", "cop", "lic", "none"} /\ inv' \in SUBSET InvDefects
        /\ UNCHANGED <<i1, i2>>
Spec == Init /\ [][Next]_vars

-----------------------------------------------------------------------------------
Leaf(id) == [key |-> id, base |-> id]
L(id) == [text |-> id, tree |-> Leaf(id)]
HasCop(i) == i \in {"both", "cop"}
HasLic(i) == i \in {"both", "lic"}
dirp(c) == [cls |-> c, symlink |-> FALSE, ignored |-> FALSE, submodule |-> FALSE]
NoDot == [present |-> FALSE, cop |-> <<>>, lic |-> <<>>, bad |-> FALSE]
NoOwn == [cop |-> <<>>, lic |-> <<>>, bad |-> FALSE]
Chars(str) == [i \in 1..Len(str) |-> SubSeq(str, i, i)]      \* TLC: strings behave as sequences here
RECURSIVE Join(_)
Join(path) == IF Len(path) = 1 THEN path[1] ELSE path[1] \o "/" \o Join(Tail(path))
F(path, ncls, type, anc, own, dot, unreadable) ==
   [path |-> path, pathstr |-> Join(path), pchars |-> Chars(Join(path)), ncls |-> ncls, type |-> type, anc |-> anc,
    ignored |-> FALSE, unreadable |-> unreadable, cov |-> TRUE, own |-> own, dot |-> dot]
Own(cop, lics) == [cop |-> cop, lic |-> lics, bad |-> FALSE]
GoodL(path, lics) == F(path, "plain", "text", [k \in 1..(Len(path) - 1) |-> dirp("plain")],
                        Own(<<"SPDX-FileCopyrightText: 2020 Some One">>, lics), NoDot, FALSE)
Good(path, id) == GoodL(path, <<L(id)>>)
(* one file that misses three licence texts at once: two tags, one of them a compound expression *)
ThreeMissing == <<L("ISC"), [text |-> "BSL-1.0 OR X11", tree |-> [op |-> "OR", l |-> Leaf("BSL-1.0"), r |-> Leaf("X11")]]>>

F1 == F(<<"src", "f1.py">>, "plain", "text", <<dirp("plain")>>,
        [cop |-> IF HasCop(i1) \/ i1 = "unreadable" THEN <<"SPDX-FileCopyrightText: 2019 First Author">> ELSE <<>>,
         lic |-> IF HasLic(i1) \/ i1 = "unreadable" THEN <<L("MIT")>> ELSE <<>>, bad |-> i1 = "bad"],
        NoDot, i1 = "unreadable")
F2 == F(<<"img", "f2.bin">>, "plain", "binary", <<dirp("plain")>>, NoOwn,
        [present |-> TRUE,
         cop |-> IF HasCop(i2) THEN <<"SPDX-FileCopyrightText: 2018 Second Author">> ELSE <<>>,
         lic |-> IF HasLic(i2) THEN <<L("MIT")>> ELSE <<>>, bad |-> i2 = "bad"], FALSE)
F3 == F(<<"docs", "f3.txt">>, "plain", "text", <<dirp("plain")>>, NoOwn, NoDot, FALSE)
(* f4 declares only its copyright: the licence comes from the same closest table as f3's information *)
F4 == F(<<"docs", "f4.txt">>, "plain", "text", <<dirp("plain")>>,
        Own(<<"SPDX-FileCopyrightText: 2016 Fourth Author">>, <<>>), NoDot, FALSE)
Toml == [dir |-> <<>>, dirchars |-> <<>>, srcstr |-> "REUSE.toml",
         tables |-> <<[globs |-> <<Chars("docs/**")>>, prec |-> "closest",
                       cop |-> IF HasCop(i3) THEN <<"2017 Third Author">> ELSE <<>>,
                       lic |-> IF HasLic(i3) THEN <<L("MIT")>> ELSE <<>>]>>]
InvFiles ==
   (IF "missing" \in inv THEN <<GoodL(<<"inv", "missing.py">>, ThreeMissing)>> ELSE <<>>)
   \o (IF "badused" \in inv THEN <<Good(<<"inv", "bad.py">>, "Nonexistent-1.0")>> ELSE <<>>)
   \o (IF "deprecated" \in inv THEN <<Good(<<"inv", "dep.py">>, "GPL-2.0")>> ELSE <<>>)
   \o (IF "noext" \in inv THEN <<Good(<<"inv", "noext.py">>, "0BSD")>> ELSE <<>>)
Entry(rel, name, stem) == [rel |-> rel, name |-> name, stem |-> stem, dotlicense |-> FALSE]
LicFiles ==
   <<Entry("MIT.txt", "MIT.txt", "MIT")>>
   \o (IF "unused" \in inv THEN <<Entry("Zlib.txt", "Zlib.txt", "Zlib")>> ELSE <<>>)
   \o (IF "badused" \in inv THEN <<Entry("Nonexistent-1.0.txt", "Nonexistent-1.0.txt", "Nonexistent-1.0")>> ELSE <<>>)
   \o (IF "deprecated" \in inv THEN <<Entry("GPL-2.0.txt", "GPL-2.0.txt", "GPL-2.0")>> ELSE <<>>)
   \o (IF "noext" \in inv THEN <<Entry("0BSD", "0BSD", "0BSD")>> ELSE <<>>)
(* files that are not covered: they carry no information and must never be reported *)
Silent(path, ncls, type, anc) == F(path, ncls, type, anc, NoOwn, NoDot, FALSE)
Distractors ==
   << Silent(<<"LICENSE">>, "LICENSE", "text", <<>>),
      Silent(<<"docs", "COPYING.md">>, "COPYING.suffix", "text", <<dirp("plain")>>),
      Silent(<<"notes.txt.license">>, "dot-license", "text", <<>>),
      Silent(<<"sbom.spdx.json">>, "spdx.json", "text", <<>>),
      Silent(<<"src", "empty.py">>, "plain", "empty", <<dirp("plain")>>),
      Silent(<<"src", "link.py">>, "plain", "symlink", <<dirp("plain")>>),
      Silent(<<".reuse", "templates", "t.jinja2">>, "plain", "text", <<dirp(".reuse"), dirp("plain")>>) >>
Proj == [files |-> <<Good(<<"base.py">>, "MIT"), F1, F2, F3, F4>> \o InvFiles \o Distractors,
         licfiles |-> LicFiles, tomls |-> <<Toml>>, dep5 |-> <<>>,
         opts |-> [submodules |-> FALSE, meson |-> FALSE],
         cls |-> [s \in {"MIT", "ISC", "Zlib", "0BSD", "GPL-2.0", "Nonexistent-1.0", "BSL-1.0", "X11"} |->
                    CASE s = "GPL-2.0" -> "dep" [] s = "Nonexistent-1.0" -> "unk" [] OTHER -> "cur"]]
(* the event's project gets cov from the trace spec; in the model cov = R's own answer *)
ProjR == [Proj EXCEPT !.files = [k \in 1..Len(Proj.files) |->
             [Proj.files[k] EXCEPT !.cov = (CoverReq(Proj.files[k], Proj.opts) = "must")]]]

Emit == phase = "case" => PrintT(ToJson([i1 |-> i1, i2 |-> i2, i3 |-> i3, inv |-> inv, p |-> Proj]))

-----------------------------------------------------------------------------------
(* the ledger: which categories the injected defects must produce *)
Ledger ==
   (IF \E i \in {i1, i2, i3} : i \in {"lic", "none", "bad"} THEN {"nocop"} ELSE {})
   \cup (IF \E i \in {i1, i2, i3} : i \in {"cop", "none", "bad"} THEN {"nolic"} ELSE {})
   \cup (IF i1 = "unreadable" THEN {"readerr"} ELSE {})
   \cup inv
Done == phase = "case"
LedgerMatchesR ==
   Done => LET p == ProjR IN
      /\ (NoCop(p) # {}) = ("nocop" \in Ledger) /\ (NoLic(p) # {}) = ("nolic" \in Ledger)
      /\ (ReadErr(p) # {}) = ("readerr" \in Ledger)
      /\ (Missing(p) # {}) = ("missing" \in Ledger) /\ (Unused(p) # {}) = ("unused" \in Ledger)
      /\ (BadUsed(p) \cup BadProvided(p) # {}) = ("badused" \in Ledger)
      /\ (Deprecated(p) # {}) = ("deprecated" \in Ledger) /\ (NoExt(p) # {}) = ("noext" \in Ledger)
VerdictIsSoundAndComplete == Done => (Compliant(ProjR) <=> Ledger = {})
MechanismMeetsRequirement == Done => (MCompliant(ProjR) <=> Compliant(ProjR))
OnlyCoveredFilesCount == Done => \A k \in 1..Len(ProjR.files) : ProjR.files[k].cov <=> k <= 5 + Len(InvFiles)
=================================================================================
