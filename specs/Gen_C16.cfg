CONSTANTS
  MaxDev = 1
SPECIFICATION Spec
INVARIANT Emit
INVARIANT EveryCellClassified
CHECK_DEADLOCK FALSE
