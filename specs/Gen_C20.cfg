CONSTANTS
  MaxSet = 2
  GenPrefixes = {"spdx", "string_c", "symbol", "spdx_string_symbol"}
  SampleN = 0
SPECIFICATION Spec
INVARIANT Emit
CHECK_DEADLOCK FALSE
