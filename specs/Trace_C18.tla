--------------------------------- MODULE Trace_C18 ---------------------------------
(* Trace validation for C18: one event = one `reuse spdx` run on a materialised    *)
(* abstract project; the parsed document is judged with module Spdx / Project.     *)
EXTENDS Spdx, Json, IOUtils, TLC, TLCExt
Tr == ndJsonDeserialize(IOEnv.TRACE_FILE)
VARIABLE l

DocNames(e) == {e.doc.files[i].name : i \in 1..Len(e.doc.files)}
WithCov(e) ==
   LET p == e.p
       cov(i) == LET r == CoverReq(p.files[i], p.opts)
                 IN  r = "must" \/ (r = "free" /\ ("./" \o p.files[i].pathstr) \in DocNames(e))
   IN  [p EXCEPT !.files = [i \in 1..Len(p.files) |-> [p.files[i] EXCEPT !.cov = cov(i)]]]

FileIdx(p, name) == CHOOSE i \in 1..Len(p.files) : ("./" \o p.files[i].pathstr) = name

Verdict(e) ==
   LET p == WithCov(e)
       d == e.doc
       want == {"./" \o p.files[i].pathstr : i \in Covered(p) \ ReadErr(p)}
       ids == {d.files[i].spdxid : i \in 1..Len(d.files)}
       refs == {id \in Provided(p) : Cls(p, id) = "ref"}
       sect(i) == d.files[i]
       fileOf(i) == p.files[FileIdx(p, sect(i).name)]
   IN  IF e.crash # "" THEN "crash"
       ELSE IF d.errors # <<>> THEN "C18.not-tag-value"
       ELSE IF DocNames(e) # want \/ Len(d.files) # Cardinality(want) THEN "C18.file-sections-vs-covered-files"
       ELSE IF Cardinality(ids) # Len(d.files) THEN "C18.spdxid-not-unique"
       ELSE IF SeqSet(d.describes) # ids \/ Len(d.describes) # Len(d.files) THEN "C18.describes-relationships"
       ELSE IF \E i \in 1..Len(d.files) : sect(i).sha1 # e.sha1[sect(i).name] THEN "C18.checksum"
       ELSE IF \E i \in 1..Len(d.files) : SeqSet(sect(i).infos) # KeysOf(p, fileOf(i)) THEN "C18.license-info-in-file"
       ELSE IF \E i \in 1..Len(d.files) : SeqSet(sect(i).cop) # CopsOf(p, fileOf(i)) THEN "C18.copyright-text"
       ELSE IF \E i \in 1..Len(d.files) :
                 LET ts == TreesOf(p, fileOf(i))
                 IN  IF ~e.concluded THEN sect(i).concluded # "NOASSERTION"
                     ELSE IF ts = <<>> THEN sect(i).concluded # "NONE"
                     ELSE sect(i).concluded \in {"NONE", "NOASSERTION", "?"} \/ ~Equiv(sect(i).tree, ts)
            THEN "C18.license-concluded"
       ELSE IF {d.licenses[i].id : i \in 1..Len(d.licenses)} # refs \/ Len(d.licenses) # Cardinality(refs)
            THEN "C18.licenseref-sections"
       ELSE IF \E i \in 1..Len(d.licenses) : d.licenses[i].text # e.lictext[d.licenses[i].id] THEN "C18.licenseref-text"
       ELSE ""

KnownFinding(e, c) == ""
TInit == l = 1
TNext == /\ l <= Len(Tr)
         /\ LET e == Tr[l]
                c == Verdict(e)
            IN  IF c = "" THEN TRUE ELSE PrintT(<<"REJECT", e.tid, 0, c, KnownFinding(e, c), e.label>>)
         /\ l' = l + 1
=================================================================================
