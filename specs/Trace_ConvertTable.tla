----------------------------- MODULE Trace_ConvertTable -----------------------------
(* One event = one real `reuse convert-dep5` on a cell of ConvertTable.tla.              *)
(*   e.c [dep5, toml]  e.exit  e.crash  e.rootChanged (anything in the project changed)  *)
(*   e.outside (anything outside changed)  e.tomlIsFile / e.dep5Gone (after the run)     *)
(*   e.otherChanged (something else than .reuse/dep5 and REUSE.toml changed)             *)
EXTENDS ConvertTable, IOUtils, TLCExt
Tr == ndJsonDeserialize(IOEnv.TRACE_FILE)
VARIABLE l
Clauses(e) ==
   LET o == ROutcome(e.c)
       c15 == IF e.outside THEN "C15.convert-dep5-wrote-or-removed-outside-the-project"
              ELSE IF e.otherChanged THEN "C15.convert-dep5-touched-something-else"
              ELSE ""
       c17 == IF o = "converted" /\ (e.exit # 0 \/ ~e.tomlIsFile \/ ~e.dep5Gone) THEN "C17.convertible-project-not-converted"
              ELSE IF o = "refused" /\ e.exit = 0 THEN "C17.converted-although-the-table-refuses"
              ELSE IF o = "refused" /\ e.rootChanged THEN "C17.refused-but-the-project-changed"
              ELSE ""
       c16 == IF o = "refused" /\ e.exit # 2 THEN "C16.refusal-is-not-a-usage-error" ELSE ""
   IN  IF e.crash # "" THEN {"crash"} ELSE {x \in {c15, c17, c16} : x # ""}
KnownFinding(e, c) == ""
TInit == l = 1 /\ phase = "start" /\ cell = CHOOSE c \in Cells : TRUE
TNext == /\ l <= Len(Tr)
         /\ LET e == Tr[l]
            IN  \A x \in Clauses(e) : PrintT(<<"REJECT", e.tid, 0, x, KnownFinding(e, x), e.label>>)
         /\ l' = l + 1 /\ UNCHANGED vars
=====================================================================================
