CONSTANTS
  PathSym <- PathSymDefault
SPECIFICATION Spec
VIEW view
INVARIANT Report
CHECK_DEADLOCK FALSE
