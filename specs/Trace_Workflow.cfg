CONSTANTS
  Files = {}
  Lics = {}
  GlobFiles = {}
  GlobLic = "0BSD"
  MaxCmds = 0
  InitPick = "all"
INIT TInit
NEXT TNext
CHECK_DEADLOCK FALSE
