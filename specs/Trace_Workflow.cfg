CONSTANTS
  Files = {}
  Lics = {}
  MaxCmds = 0
  InitPick = "all"
INIT TInit
NEXT TNext
CHECK_DEADLOCK FALSE
