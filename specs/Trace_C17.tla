--------------------------------- MODULE Trace_C17 ---------------------------------
(* Trace validation for C17, project level: one event = one `reuse convert-dep5` run.  *)
(*   e.hadDep5, e.exit, e.treeUnchanged, e.dep5After, e.tomlAfter                      *)
(*   e.fsev   : <<[op, path]>> file-system events of the run in order ("write" =       *)
(*              opened for writing, "remove")                                          *)
(*   e.before / e.after : <<[path, items : <<[kind, val, src, st]>>]>> what lint        *)
(*              attributes to every file before and after                              *)
(*   e.catsBefore / e.catsAfter : the lint categories as canonical strings             *)
EXTENDS Naturals, Sequences, FiniteSets, Json, IOUtils, TLC, TLCExt
Tr == ndJsonDeserialize(IOEnv.TRACE_FILE)
VARIABLE l
SeqSet(s) == {s[i] : i \in 1..Len(s)}
(* "apart from the name of the source": dep5 items become REUSE.toml items *)
Rename(it) == IF it.st = "dep5" THEN [kind |-> it.kind, val |-> it.val, src |-> "REUSE.toml", st |-> "reuse-toml"] ELSE it
View(fs) == {[path |-> fs[i].path, items |-> {Rename(fs[i].items[j]) : j \in 1..Len(fs[i].items)}] : i \in 1..Len(fs)}
FirstIdx(s, P(_)) == LET c == {i \in 1..Len(s) : P(s[i])} IN IF c = {} THEN 0 ELSE CHOOSE i \in c : \A j \in c : i <= j
WriteAt(e)  == FirstIdx(e.fsev, LAMBDA x : x.op = "write" /\ x.path = "REUSE.toml")
RemoveAt(e) == FirstIdx(e.fsev, LAMBDA x : x.op = "remove" /\ x.path = ".reuse/dep5")
KnownFinding(e, c) == IF c = "C17.attribution-changed-by-conversion" /\ e.usesQuestionMark THEN "KF-C17-1"
                      ELSE IF c = "C17.attribution-changed-by-conversion" /\ e.usesStarSlash THEN "KF-C17-2" ELSE ""
Verdict(e) ==
   IF e.crash # "" /\ e.fault = "none" THEN "crash"
   ELSE IF ~e.hadDep5 THEN (IF e.exit = 2 /\ e.treeUnchanged THEN "" ELSE "C17.ran-without-dep5")
   ELSE IF RemoveAt(e) # 0 /\ (WriteAt(e) = 0 \/ WriteAt(e) > RemoveAt(e)) THEN "C17.dep5-removed-before-REUSE.toml-was-written"
   ELSE IF e.exit # 0 THEN (IF e.dep5After THEN "" ELSE "C17.dep5-lost-although-conversion-failed")
   ELSE IF ~e.tomlAfter \/ e.dep5After THEN "C17.dep5-not-replaced-by-REUSE.toml"
   ELSE IF View(e.before) # View(e.after) \/ e.catsBefore # e.catsAfter THEN "C17.attribution-changed-by-conversion"
   ELSE ""
TInit == l = 1
TNext == /\ l <= Len(Tr)
         /\ LET e == Tr[l]
                c == Verdict(e)
            IN  IF c = "" THEN TRUE ELSE PrintT(<<"REJECT", e.tid, 0, c, KnownFinding(e, c), e.label>>)
         /\ l' = l + 1
=================================================================================
