CONSTANTS
  Files = {1, 2, 3, 4, 5, 6}
  Workers = {1, 2, 3}
  ChunkSize = 2
SPECIFICATION Spec
INVARIANT EmitSched
INVARIANT ScheduleFree
CHECK_DEADLOCK FALSE
