CONSTANTS
  MaxSet = 5
  GenPrefixes = {"spdx"}
  SampleN = 100
SPECIFICATION SampleSpec
CONSTRAINT SampleBound
INVARIANT Emit
INVARIANT MechanismMeetsRequirement
CHECK_DEADLOCK FALSE
