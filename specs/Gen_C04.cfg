CONSTANTS
  Depth = 2
  MaxTables = 1
  WithDep5 = TRUE
  SampleN = 0
SPECIFICATION Spec
INVARIANT Emit
CHECK_DEADLOCK FALSE
