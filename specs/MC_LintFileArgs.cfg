SPECIFICATION Spec
INVARIANT MechanismMeetsRequirement
INVARIANT OnlyCoveredFilesAreReported
INVARIANT Emit
CHECK_DEADLOCK FALSE
