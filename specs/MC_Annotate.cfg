CONSTANTS
  Files = {"f1", "f2"}
  Bundles <- SmallBundles
  MaxSteps = 3
  AllowFail = TRUE
SPECIFICATION Spec
INVARIANT ExitReflectsFailure
PROPERTY Monotone
PROPERTY FailedUntouched
PROPERTY Idempotent
CHECK_DEADLOCK FALSE
