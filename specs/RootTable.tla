---------------------------------- MODULE RootTable ----------------------------------
(* Which directory is the project?  The decision table over                              *)
(*   vcs     : no version control | the project directory is the top of a Git work tree | *)
(*             the project directory lies inside a larger Git work tree                   *)
(*   cwd     : the command is started in the project directory | in its sub-directory     *)
(*             src/ | in the directory above it                                           *)
(*   rootarg : no --root | --root with the absolute path | --root with a path relative    *)
(*             to the working directory                                                   *)
(* R (manual page of the global option): --root names the project; without it the top of  *)
(* the version-controlled work tree the command is started in, else the working           *)
(* directory itself.  The answer is one of the three nested directories of the set-up:    *)
(*   "above" (the parent, which holds the project directory and a stray file),            *)
(*   "project", "src" (the sub-directory).  M transcribes cli/common.ClickObj.project and  *)
(* vcs.find_root.  The replay observes the answer as the set of files `lint` lists.       *)
EXTENDS Naturals, Sequences, FiniteSets, TLC, Json
Vcss  == {"none", "git-here", "git-above"}
Cwds  == {"project", "src", "above"}
Roots == {"none", "abs", "rel"}
Cells == [vcs : Vcss, cwd : Cwds, rootarg : Roots]

(* where the Git work tree's top is, seen from a working directory ("" = not inside a work tree) *)
TopFrom(vcs, cwd) == CASE vcs = "none" -> ""
                       [] vcs = "git-here"  -> IF cwd \in {"project", "src"} THEN "project" ELSE ""
                       [] vcs = "git-above" -> "above"
RRoot(c) == IF c.rootarg # "none" THEN "project"
            ELSE IF TopFrom(c.vcs, c.cwd) # "" THEN TopFrom(c.vcs, c.cwd)
            ELSE c.cwd
(* M: root = obj.root; if None: find_root() (first VCS strategy that answers from the working directory); if None: cwd *)
MRoot(c) == LET given == IF c.rootarg = "none" THEN "" ELSE "project"
                found == IF given # "" THEN given ELSE TopFrom(c.vcs, c.cwd)
            IN  IF found # "" THEN found ELSE c.cwd

VARIABLES cell, phase
vars == <<cell, phase>>
Init == phase = "start" /\ cell = CHOOSE c \in Cells : TRUE
Next == phase = "start" /\ phase' = "cell" /\ cell' \in Cells
Spec == Init /\ [][Next]_vars
MechanismMeetsRequirement == phase = "cell" => MRoot(cell) = RRoot(cell)
RootArgWins == phase = "cell" => (cell.rootarg # "none" => RRoot(cell) = "project")
Emit == phase = "cell" => PrintT(ToJson([c |-> cell, root |-> RRoot(cell)]))
=====================================================================================
