CONSTANTS
  GlobSym <- GlobSymDefault
  MaxLen = 4
SPECIFICATION Spec
INVARIANT TokCoversGlob
INVARIANT WideIsWider
CHECK_DEADLOCK FALSE
