CONSTANTS
  N = 1
  Git = FALSE
  Ctxs <- CtxsNoGit
  NameClasses <- AllNameClasses
  Types = {"text", "binary", "empty", "symlink", "special"}
  Wants = {"none"}
  SampleN = 0
SPECIFICATION Spec
CHECK_DEADLOCK FALSE
INVARIANT Emit
