---------------------------------- MODULE SpdxGen ----------------------------------
(* C18 generator: two files whose licence expressions are trees over the symbols   *)
(* A, B, C, A+ and "A WITH E"; f2 carries a different combination of the same      *)
(* symbols; two more files have identical content and the same base name in        *)
(* different directories; one file uses a LicenseRef- provided in LICENSES/.       *)
(* Also checked here, on the model: Equiv is reflexive and separates AND from OR.  *)
EXTENDS Spdx, TLC, Json
CONSTANTS SampleN
VARIABLES e1, e2, phase, step
vars == <<e1, e2, phase, step>>

Leafs == {[key |-> "MIT", base |-> "MIT"], [key |-> "Apache-2.0", base |-> "Apache-2.0"], [key |-> "0BSD", base |-> "0BSD"],
          [key |-> "MIT+", base |-> "MIT"]}
Withs == {[op |-> "WITH", l |-> [key |-> "GPL-3.0-or-later", base |-> "GPL-3.0-or-later"],
           x |-> [key |-> "Classpath-exception-2.0", base |-> "Classpath-exception-2.0"]]}
T0 == Leafs \cup Withs
T1 == {[op |-> o, l |-> a, r |-> b] : o \in {"AND", "OR"}, a \in T0, b \in T0}
T2 == {[op |-> o, l |-> a, r |-> b] : o \in {"AND", "OR"}, a \in T1, b \in T0 \cup T1}
RECURSIVE Dual(_)
Dual(t) == IF "key" \in DOMAIN t \/ t.op = "WITH" THEN t
           ELSE [op |-> IF t.op = "AND" THEN "OR" ELSE "AND", l |-> Dual(t.l), r |-> Dual(t.r)]

Init == e1 = <<>> /\ e2 = <<>> /\ phase = "build" /\ step = 0
(* exhaustive part: one expression of depth <= 1 in f1, its dual in f2 *)
Next == /\ phase = "build" /\ phase' = "case" /\ UNCHANGED step
        /\ \E t \in T0 \cup T1 : e1' = <<t>> /\ e2' = <<Dual(t)>>
Spec == Init /\ [][Next]_vars
(* sampled part: one or two expressions of depth <= 2 per file *)
AnyT == T0 \cup T1 \cup T2
SampleNext == /\ phase' = "case" /\ step' = step + 1
              /\ e1' = IF RandomElement({1, 2}) = 1 THEN <<RandomElement(AnyT)>> ELSE <<RandomElement(T1), RandomElement(AnyT)>>
              /\ e2' = IF RandomElement({1, 2}) = 1 THEN <<Dual(e1'[1])>> ELSE <<RandomElement(AnyT), RandomElement(T0)>>
SampleSpec == Init /\ [][SampleNext]_vars
SampleBound == TLCGet("level") <= SampleN

RECURSIVE Render(_)
Wrap(c) == IF "key" \in DOMAIN c \/ c.op = "WITH" THEN Render(c) ELSE "(" \o Render(c) \o ")"
Render(t) == IF "key" \in DOMAIN t THEN t.key
             ELSE IF t.op = "WITH" THEN t.l.key \o " WITH " \o t.x.key
             ELSE Wrap(t.l) \o " " \o t.op \o " " \o Wrap(t.r)
Lic(ts) == [i \in 1..Len(ts) |-> [text |-> Render(ts[i]), tree |-> ts[i]]]

dirp(c) == [cls |-> c, symlink |-> FALSE, ignored |-> FALSE, submodule |-> FALSE]
NoDot == [present |-> FALSE, cop |-> <<>>, lic |-> <<>>, bad |-> FALSE]
Chars(str) == [i \in 1..Len(str) |-> SubSeq(str, i, i)]
RECURSIVE Join(_)
Join(path) == IF Len(path) = 1 THEN path[1] ELSE path[1] \o "/" \o Join(Tail(path))
F(path, cop, lics, body) ==
   [path |-> path, pathstr |-> Join(path), pchars |-> Chars(Join(path)), ncls |-> "plain", type |-> "text",
    anc |-> [k \in 1..(Len(path) - 1) |-> dirp("plain")], ignored |-> FALSE, unreadable |-> FALSE, cov |-> TRUE,
    own |-> [cop |-> cop, lic |-> lics, bad |-> FALSE], dot |-> NoDot, body |-> body]
MIT == <<[text |-> "MIT", tree |-> [key |-> "MIT", base |-> "MIT"]]>>
Proj ==
   [files |-> << F(<<"src", "one.py">>, <<"SPDX-FileCopyrightText: 2020 First Author">>, Lic(e1), "print(1)\n"),
                 F(<<"src", "two file.py">>, <<"SPDX-FileCopyrightText: 2021 Second Author", "SPDX-FileCopyrightText: 2019 Third Author">>, Lic(e2), "print(2)\n"),
                 F(<<"src", "__init__.py">>, <<"SPDX-FileCopyrightText: 2020 Same">>, MIT, "same = 1\n"),
                 F(<<"pkg", "__init__.py">>, <<"SPDX-FileCopyrightText: 2020 Same">>, MIT, "same = 1\n"),
                 F(<<"pkg", "copy.py">>, <<"SPDX-FileCopyrightText: 2020 Same">>, MIT, "same = 1\n"),
                 F(<<"custom.txt">>, <<"SPDX-FileCopyrightText: 2022 Custom">>,
                   <<[text |-> "LicenseRef-custom", tree |-> [key |-> "LicenseRef-custom", base |-> "LicenseRef-custom"]]>>, "text\n"),
                 F(<<"nothing.txt">>, <<>>, <<>>, "no information here\n") >>,
    licfiles |-> << [rel |-> "MIT.txt", name |-> "MIT.txt", stem |-> "MIT", dotlicense |-> FALSE],
                    [rel |-> "LicenseRef-custom.txt", name |-> "LicenseRef-custom.txt", stem |-> "LicenseRef-custom", dotlicense |-> FALSE],
                    [rel |-> "sub/LicenseRef-other.md", name |-> "LicenseRef-other.md", stem |-> "LicenseRef-other", dotlicense |-> FALSE] >>,
    tomls |-> <<>>, dep5 |-> <<>>, opts |-> [submodules |-> FALSE, meson |-> FALSE],
    cls |-> [s \in {"MIT"} |-> "cur"]]
Emit == phase = "case" => PrintT(ToJson([e1 |-> Lic(e1), e2 |-> Lic(e2), p |-> Proj]))

Done == phase = "case"
EquivReflexive == Done => Equiv(e1[1], <<e1[1]>>)
DualDiffersUnlessLeaf == Done => (("op" \in DOMAIN e1[1] /\ e1[1].op # "WITH" /\ Syms(e1[1].l) # Syms(e1[1].r)) => ~Equiv(e1[1], <<Dual(e1[1])>>))
=================================================================================
