SPECIFICATION Spec
INVARIANT LedgerMatchesR
INVARIANT VerdictIsSoundAndComplete
INVARIANT MechanismMeetsRequirement
INVARIANT OnlyCoveredFilesCount
CHECK_DEADLOCK FALSE
