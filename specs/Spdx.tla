----------------------------------- MODULE Spdx -----------------------------------
(* C18 - the SPDX bill of materials.  Requirement operators over                   *)
(*   p    the abstract project (module Project), with cov decided                  *)
(*   doc  the parsed tag-value document                                            *)
(*        files : <<[name, spdxid, sha1, concluded, concludedTree, infos, cop]>>   *)
(*        describes : <<spdxid>>, licenses : <<[id, text]>>, errors : <<text>>     *)
(*   sha1 : path -> true SHA-1 (computed by the harness with hashlib: a fact)      *)
EXTENDS Project

(* truth-table equivalence; "L WITH E" is one symbol *)
SymOf(t) == IF "key" \in DOMAIN t THEN t.key ELSE t.l.key \o " WITH " \o t.x.key
RECURSIVE Syms(_)
Syms(t) == IF "key" \in DOMAIN t \/ t.op = "WITH" THEN {SymOf(t)} ELSE Syms(t.l) \cup Syms(t.r)
RECURSIVE Eval(_, _)
Eval(t, T) == IF "key" \in DOMAIN t \/ t.op = "WITH" THEN SymOf(t) \in T
              ELSE IF t.op = "AND" THEN Eval(t.l, T) /\ Eval(t.r, T)
              ELSE Eval(t.l, T) \/ Eval(t.r, T)
(* a sequence of expressions stands for their conjunction *)
EvalAll(ts, T) == \A i \in 1..Len(ts) : Eval(ts[i], T)
Equiv(c, ts) ==
   LET S == Syms(c) \cup UNION {Syms(ts[i]) : i \in 1..Len(ts)}
   IN  \A T \in SUBSET S : Eval(c, T) = EvalAll(ts, T)

RECURSIVE SetToSeq(_)
SetToSeq(S) == IF S = {} THEN <<>> ELSE LET x == CHOOSE y \in S : TRUE IN <<x>> \o SetToSeq(S \ {x})
TreesOf(p, f) == SetToSeq({it.tree : it \in {it \in InfoOf(p, f) : it.kind = "lic"}})
KeysOf(p, f)  == {u.key : u \in UsedOf(p, f)}
CopsOf(p, f)  == {it.val : it \in {it \in InfoOf(p, f) : it.kind = "cop"}}
=================================================================================
