--------------------------------- MODULE TagLineGen ---------------------------------
(* Generator / model check for TagLine.  Styles and Terminators are binding         *)
(* constants written by the harness from the comment-style table of the code under  *)
(* test (module StyleTable, generated).  Every reachable "case" state is one tag     *)
(* line; MechanismMeetsRequirement is  Read(Render(c)) = Denotes(c).                 *)
EXTENDS TagLine, StyleTable, Json
CONSTANTS SampleN
VARIABLES c, phase, step
vars == <<c, phase, step>>

Forms(s) == (IF s.single # "" THEN {"single"} ELSE {}) \cup (IF s.ms # "" /\ s.me # "" THEN {"inline", "block"} ELSE {}) \cup {"bare"}
PrefixOf(s, form) == CASE form = "single" -> s.single
                       [] form = "inline" -> s.ms
                       [] form = "block"  -> IF s.mm = "" THEN "" ELSE s.ibm \o s.mm
                       [] OTHER -> ""
OwnTerms(s, form) == IF form = "inline" THEN <<s.me>> ELSE <<>>
Extra == {<<>>, <<"\">">>, <<"'/>">>, <<"] ::">>, <<"-->">>, <<"*/", "-->">>}
AlnumPrefixes == {"c", "dnl", "REM"}
LicValues(p) == {"MIT", "GPL-2.0-or-later WITH Classpath-exception-2.0", "(MIT OR Apache-2.0) AND 0BSD", "LicenseRef-abc",
                 "mit OR apache-2.0 WITH classpath-exception-2.0"}      \* (identifiers are read as written: no capitalisation is restored)
                  \cup (IF p \in AlnumPrefixes THEN {"LicenseRef-x" \o Reverse(p)} ELSE {})
TextValues(p) == {"2020 Jane Doe", "2019-2021 ACME, Inc. <https://acme.example>", "Eric Poc", "Written in C# by Ann"}
                   \cup (IF Strip(p) # "" THEN {"Eric Po" \o Reverse(Strip(p))} ELSE {})
ValuesFor(tag, p) == IF tag = "lic" THEN LicValues(p) ELSE TextValues(p)
Tags == {"lic", "con", "cop", "snip", "word", "wordc", "sym", "wordsym"}

CaseOf0(s, form, frame, tag, v, ex, indent, trail) ==
   LET p == PrefixOf(s, form)
   IN  [style |-> s.name, form |-> form, indent |-> indent, p |-> p,
        gapL |-> IF p = "" THEN "" ELSE IF form = "block" /\ s.iam # "" THEN s.iam ELSE " ",
        tag |-> tag, value |-> v, trail |-> IF OwnTerms(s, form) # <<>> \/ ex # <<>> \/ frame THEN trail \o " " ELSE trail,
        frame |-> frame, gapR |-> " ", terms |-> OwnTerms(s, form) \o ex, tgap |-> "", blanks |-> IF trail = "" THEN "" ELSE " "]
CaseOfG(s, form, frame, tag, v, ex, indent, trail, tgap) == [CaseOf0(s, form, frame, tag, v, ex, indent, trail) EXCEPT !.tgap = tgap]
CaseOf(s, form, frame, tag, v, ex, indent, trail) == CaseOf0(s, form, frame, tag, v, ex, indent, trail)
AllCases == {CaseOf(s, form, frame, tag, v, ex, "", "") :
               s \in Styles, form \in {"single", "inline", "block", "bare"}, frame \in BOOLEAN, tag \in Tags,
               v \in {"MIT", "2020 Jane Doe"}, ex \in {<<>>}}        \* (shape only; the real enumeration is Next)

Init == c = [style |-> "", form |-> "bare", indent |-> "", p |-> "", gapL |-> "", tag |-> "lic", value |-> "MIT", trail |-> "",
             frame |-> FALSE, gapR |-> " ", terms |-> <<>>, tgap |-> "", blanks |-> ""] /\ phase = "start" /\ step = 0
Next == /\ phase = "start" /\ phase' = "case" /\ UNCHANGED step
        /\ \E s \in Styles : \E form \in Forms(s) : \E tag \in Tags : \E ex \in {<<>>, <<"\">">>, <<"-->">>} :
             \E frame \in (IF PrefixOf(s, form) = "" THEN {FALSE} ELSE BOOLEAN) :
               \E v \in ValuesFor(tag, PrefixOf(s, form)) :
                 \E g \in (IF Len(OwnTerms(s, form) \o ex) >= 2 THEN {"", " "} ELSE {""}) :      \* a comment nested in another: "*/ -->"
                  c' = CaseOfG(s, form, frame, tag, v, ex, "", "", g)
Spec == Init /\ [][Next]_vars
SampleNext == /\ phase' = "case" /\ step' = step + 1
              /\ \E s \in {RandomElement(Styles)} : \E form \in {RandomElement(Forms(s))} : \E tag \in {RandomElement(Tags)} :
                   \E frame \in {IF PrefixOf(s, form) = "" THEN FALSE ELSE RandomElement(BOOLEAN)} :     \* (bound once each)
                      c' = CaseOfG(s, form, frame, tag, RandomElement(ValuesFor(tag, PrefixOf(s, form))), RandomElement(Extra),
                                   RandomElement({"", "  ", "\t"}), RandomElement({"", " ", "  "}), RandomElement({"", " ", "  "}))
SampleSpec == Init /\ [][SampleNext]_vars
SampleBound == TLCGet("level") <= SampleN

Done == phase = "case"
(* values that end in a terminator, or in blank + mirrored prefix without being framed, are outside the domain *)
InDomain(k) == /\ ~\E t \in Terminators : EndsWith(k.value, t)
               /\ ~(Strip(k.p) # "" /\ ~k.frame /\ EndsWith(k.value, " " \o Reverse(Strip(k.p))))
MechanismMeetsRequirement == (Done /\ InDomain(c)) => Read(Render(c), c.tag) = Denotes(c)      \* M |= R  (C02)
Emit == (Done /\ InDomain(c)) => PrintT(ToJson([c |-> c, line |-> Render(c), expect |-> Denotes(c)]))
=================================================================================
