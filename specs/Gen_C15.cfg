CONSTANTS
  Project = {"src/a.py", "src/b.c", "bin.dat", "link.py", "linkdir", "ignored.log", "LICENSES/MIT.txt", "LICENSES/LicenseRef-custom.txt", "src-legacy/old.py", "srcgen.py", ".reuse/dep5", "LICENSE", "docs/readme.md"}
  Sentinel = {"sentinel/target.py", "sentinel/dir/x.py"}
  Covered = {"src-legacy/old.py", "srcgen.py", "src/a.py", "src/b.c", "bin.dat", "docs/readme.md"}
  Symlinks = {"link.py", "linkdir"}
  MaxCmds = 2
SPECIFICATION Spec
CHECK_DEADLOCK FALSE
INVARIANT Emit
VIEW histview
