-------------------------------- MODULE LintFileArgs --------------------------------
(* What `reuse lint-file ARG OTHER` makes of ONE argument - the decision table over     *)
(*   what : a covered file without information, a covered compliant file, an excluded  *)
(*          name (LICENSE), a file below LICENSES/, a FILE.license, an empty file, a    *)
(*          file below an ignored directory (.reuse/ - also two levels down), a         *)
(*          directory, a symbolic link to a covered file without information, a         *)
(*          symbolic link that points out of the project, a dangling symbolic link, a   *)
(*          path that does not exist, a file outside the project                        *)
(*   how  : named by relative path from the root, by absolute path, from a              *)
(*          sub-directory                                                               *)
(* R is C13's sentence: the per-file problems of the COVERED files among the arguments  *)
(* are reported, the others are ignored, exit status 1 iff something was reported; a    *)
(* path that is not there, or not inside the project, is a usage error (exit status 2,  *)
(* nothing reported).  M transcribes cli/lint_file.py + covered_files.iter_files.       *)
EXTENDS Naturals, Sequences, FiniteSets, TLC, Json

Whats == {"covered-bad", "covered-good", "excluded-name", "in-licenses", "dot-license", "empty", "in-ignored-dir", "deep-in-ignored-dir",
          "directory", "link-to-covered-bad", "link-out", "link-dangling", "missing", "outside"}
Hows  == {"relative", "absolute", "from-subdir"}
Cells == [what : Whats, how : Hows]

(* R: the statement *)
Covered(w)   == w \in {"covered-bad", "covered-good"}
NotThere(w)  == w \in {"missing", "link-dangling"}          \* the command line checks that every FILE exists (a dangling link does not)
ROutcome(c)  == IF NotThere(c.what) \/ c.what = "outside" THEN "usage"
                ELSE IF c.what = "covered-bad" THEN "reported"
                ELSE "ignored"                                            \* (also a directory: it is not a covered file, and does not stand for the files below it)
(* M: the code *)
MOutcome(c) ==
   IF NotThere(c.what) THEN "usage"                                             \* click.Path(exists=True)
   ELSE IF c.what = "outside" THEN "usage"                                      \* the location is not below the root
   ELSE IF c.what \in {"link-to-covered-bad", "link-out"} THEN "ignored"        \* a link is where it lies; the walk never yields links
   ELSE IF c.what = "directory" THEN "ignored"                                  \* the walk enters a named directory (it "contains" itself) but finds no named FILE in it
   ELSE IF c.what \in {"excluded-name", "in-licenses", "dot-license", "empty", "in-ignored-dir", "deep-in-ignored-dir"} THEN "ignored"
   ELSE IF c.what = "covered-bad" THEN "reported" ELSE "ignored"
ExitOf(o, otherBad) == CASE o = "usage" -> 2 [] o = "reported" -> 1 [] OTHER -> (IF otherBad THEN 1 ELSE 0)

VARIABLES cell, phase
vars == <<cell, phase>>
Init == phase = "start" /\ cell = CHOOSE c \in Cells : TRUE
Next == phase = "start" /\ phase' = "cell" /\ cell' \in Cells
Spec == Init /\ [][Next]_vars
MechanismMeetsRequirement == phase = "cell" => MOutcome(cell) = ROutcome(cell)
OnlyCoveredFilesAreReported == phase = "cell" => (ROutcome(cell) = "reported" => Covered(cell.what))
Emit == phase = "cell" => PrintT(ToJson([c |-> cell, outcome |-> ROutcome(cell)]))
=====================================================================================
