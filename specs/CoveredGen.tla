-------------------------------- MODULE CoveredGen --------------------------------
(* C03 - generator and mechanism model for "exactly the covered files".            *)
(*                                                                                 *)
(* A project is a set of up to N nodes.  A node is a file given by                 *)
(*   ctx   the classes of its ancestor directories, outermost first                *)
(*         plain | LICENSES | .reuse | .git | .hg | .sl | subprojects |            *)
(*         symlinkdir | ignoreddir | untrackeddir | submodule                      *)
(*   ncls  the class of its name (both sides of every exclusion rule)              *)
(*   type  text | binary | empty | symlink | special (socket / pipe)                                        *)
(*   want  (Git projects) tracked | untracked | ignore-exact | ignore-name |       *)
(*         ignore-then-negate | ignore-but-tracked                                 *)
(* The concretiser invents names of the classes, builds the Git repository and     *)
(* then asks `git check-ignore` which paths are ignored; that answer - not `want`  *)
(* - is the `ignored` attribute judged by Project!CoverReq during trace validation.*)
(* In this module (model level) `ignored` is what Git is documented to answer.     *)
(* R = Project!CoverReq.  M = MCovered: os.walk with pruning + is_path_ignored.    *)
EXTENDS Project, TLC, Json

CONSTANTS N, Git, Ctxs, NameClasses, Types, Wants, SampleN

AllNameClasses == ExcludedNameClass \cup CoveredNameClass \cup {"git-file", "hgtags"}
CtxsNoGit == {<<>>, <<"plain">>, <<"plain", "plain">>, <<"LICENSES">>, <<"plain", "LICENSES">>, <<".reuse">>,
              <<".git">>, <<".hg">>, <<".sl">>, <<"plain", ".hg">>, <<"subprojects">>, <<"subprojects", "plain">>,
              <<"subprojects", "plain", "plain">>, <<"plain", "subprojects", "plain">>, <<"symlinkdir">>,
              <<"plain", "symlinkdir">>}
CtxsGit == CtxsNoGit \cup {<<"ignoreddir">>, <<"ignoreddir", "plain">>, <<"plain", "ignoreddir">>, <<"untrackeddir">>,
                           <<"submodule">>, <<"submodule", "plain">>, <<"subprojects", "submodule">>, <<"plain", "submodule">>}     \* (a submodule below a plain directory: the project root may be that directory)
WantsGit == {"tracked", "untracked", "ignore-exact", "ignore-name", "ignore-then-negate", "ignore-but-tracked"}

VARIABLES nodes, opts, phase, step
vars == <<nodes, opts, phase, step>>

Node == [ctx : Ctxs, ncls : NameClasses, type : Types, want : Wants]
Opts == [submodules : BOOLEAN, meson : BOOLEAN]
OptsFor(ns) ==    \* the switches only matter where a submodule / subprojects directory occurs
   {o \in Opts : /\ (o.submodules => \E n \in ns : \E i \in 1..Len(n.ctx) : n.ctx[i] = "submodule")
                 /\ (o.meson => \E n \in ns : \E i \in 1..Len(n.ctx) : n.ctx[i] = "subprojects")}
Init == nodes = {} /\ opts = [submodules |-> FALSE, meson |-> FALSE] /\ phase = "build" /\ step = 0
Next == \/ /\ phase = "build" /\ Cardinality(nodes) < N
           /\ \E n \in Node : n \notin nodes /\ nodes' = nodes \cup {n}
           /\ UNCHANGED <<opts, phase, step>>
        \/ /\ phase = "build" /\ nodes # {} /\ phase' = "case"
           /\ opts' \in OptsFor(nodes) /\ UNCHANGED <<nodes, step>>
Spec == Init /\ [][Next]_vars

SampleInit == Init
SampleNext == /\ nodes' = {RandomElement(Node) : k \in 1..N}
              /\ opts' = RandomElement(Opts) /\ phase' = "case" /\ step' = step + 1
SampleSpec == SampleInit /\ [][SampleNext]_vars
SampleBound == TLCGet("level") <= SampleN

-----------------------------------------------------------------------------------
(* what Git is documented to answer for a wanted state (model level only) *)
GitIgnores(n) == Git /\ n.want \in {"ignore-exact", "ignore-name"}
DirIgnored(c) == Git /\ c = "ignoreddir"
AncOf(n) == [i \in 1..Len(n.ctx) |->
               [cls |-> IF n.ctx[i] \in {"symlinkdir", "ignoreddir", "untrackeddir", "submodule"} THEN "plain" ELSE n.ctx[i],
                symlink |-> n.ctx[i] = "symlinkdir", ignored |-> DirIgnored(n.ctx[i]),
                submodule |-> Git /\ n.ctx[i] = "submodule"]]
FileOf(n) == [ncls |-> n.ncls, type |-> n.type, anc |-> AncOf(n), ignored |-> GitIgnores(n)]

(* M: iter_files / is_path_ignored.  Directories are pruned top-down; a file is    *)
(* yielded iff no ancestor was pruned and the file tests all fail.                 *)
MDirPruned(f, i, o) ==
   LET d == f.anc[i]
   IN  \/ d.symlink
       \/ d.cls \in {".git", ".hg", ".sl", "LICENSES", ".reuse"}
       \/ (~o.meson /\ i >= 2 /\ f.anc[i - 1].cls = "subprojects")
       \/ (~o.submodules /\ d.submodule)
       \/ d.ignored
MFileIgnored(f) ==
   \/ f.type \in {"symlink", "special"}
   \/ f.ncls \in ExcludedNameClass \cup {"git-file", "hgtags"}
   \/ f.type = "empty"
   \/ f.ignored
MCovered(f, o) == ~MFileIgnored(f) /\ \A i \in 1..Len(f.anc) : ~MDirPruned(f, i, o)

Done == phase = "case"
MechanismMeetsRequirement ==
   Done => \A n \in nodes :
      LET f == FileOf(n) r == CoverReq(f, opts)
      IN  (r = "must" => MCovered(f, opts)) /\ (r = "mustnot" => ~MCovered(f, opts))
(* R on its own: every name class is decided, and decided one way *)
ClassesPartition == ExcludedNameClass \cap CoveredNameClass = {}
EveryClassDecided == NameClasses \subseteq ExcludedNameClass \cup CoveredNameClass \cup {"git-file", "hgtags"}

RECURSIVE SetToSeq(_)
SetToSeq(S) == IF S = {} THEN <<>> ELSE LET x == CHOOSE y \in S : TRUE IN <<x>> \o SetToSeq(S \ {x})
Emit == Done => PrintT(ToJson([git |-> Git, opts |-> opts,
                               nodes |-> LET s == SetToSeq(nodes)
                                         IN [i \in 1..Len(s) |-> [ctx |-> s[i].ctx, ncls |-> s[i].ncls, type |-> s[i].type,
                                                                   want |-> s[i].want, anc |-> AncOf(s[i])]]]))
=================================================================================
