---------------------------------- MODULE Workflow ----------------------------------
(* The tool as a state machine over WHAT A PROJECT DECLARES: cross-command laws.        *)
(*                                                                                      *)
(*   info    : covered file -> [cop : BOOLEAN, lic : SUBSET Lics]  what the linter reads *)
(*   present : SUBSET Lics                                      texts in LICENSES/      *)
(*   hist    : the commands run so far, with the exit status each must have             *)
(*                                                                                      *)
(* One action per user-visible command; each is the documented effect of that command   *)
(* on the abstract state and its documented exit status:                                *)
(*   annotate  adds to what the named files declare (C07, C09), never removes           *)
(*   download  adds exactly the named / the missing texts, refuses existing ones (C19)  *)
(*   lint, spdx read only (C15); lint's exit status is 0 iff Compliant (C01)            *)
(*   convert-dep5 moves the project-wide declaration, attribution unchanged (C17)       *)
(* The same operators (Apply, ExitOf) judge recorded runs of the real tool in           *)
(* Trace_Workflow; the behaviours TLC explores here are replayed step by step with the  *)
(* abstract state compared after every command.                                         *)
EXTENDS Naturals, Sequences, FiniteSets, TLC, Json

CONSTANTS Files,        \* covered files of the project
          Lics,         \* licence identifiers in play (valid SPDX identifiers and LicenseRef-)
          GlobFiles,    \* the files a project-wide declaration (.reuse/dep5, or the REUSE.toml it is converted to) covers
          GlobLic,      \* ... and the licence it gives them (together with a copyright holder)
          MaxCmds,
          InitPick      \* which initial states to start from: "all" or "few"

VARIABLES info, present, hist,
          glob,          \* "none" | "dep5" | "toml": where the project-wide declaration lives
          start          \* history variable: the initial state of this behaviour (for replay)
vars == <<info, present, hist, glob, start>>

Nothing == [cop |-> FALSE, lic |-> {}]

(* what the linter sees: a file's own declarations aggregated with the project-wide one *)
Seen(i, g) == [f \in DOMAIN i |-> IF g # "none" /\ f \in GlobFiles THEN [cop |-> TRUE, lic |-> i[f].lic \cup {GlobLic}] ELSE i[f]]

(* ------------------------------------------------------------------ derived: the lint report (i = what the linter sees) *)
Used(i)        == UNION {i[f].lic : f \in DOMAIN i}
Missing(i, p)  == Used(i) \ p
Unused(i, p)   == p \ Used(i)
NoCop(i)       == {f \in DOMAIN i : ~i[f].cop}
NoLic(i)       == {f \in DOMAIN i : i[f].lic = {}}
Compliant(i, p) == Missing(i, p) = {} /\ Unused(i, p) = {} /\ NoCop(i) = {} /\ NoLic(i) = {}

(* ------------------------------------------------------------------ commands *)
AnnotateCmd(F, c, L) == [kind |-> "annotate", files |-> F, cop |-> c, lic |-> L]
DownloadCmd(L)       == [kind |-> "download", files |-> {}, cop |-> FALSE, lic |-> L]
DownloadAllCmd       == [kind |-> "download-all", files |-> {}, cop |-> FALSE, lic |-> {}]
LintCmd              == [kind |-> "lint", files |-> {}, cop |-> FALSE, lic |-> {}]
SpdxCmd              == [kind |-> "spdx", files |-> {}, cop |-> FALSE, lic |-> {}]
ConvertCmd           == [kind |-> "convert-dep5", files |-> {}, cop |-> FALSE, lic |-> {}]

Cmds == {AnnotateCmd(F, c, L) : F \in (SUBSET Files) \ {{}}, c \in BOOLEAN, L \in {S \in SUBSET Lics : Cardinality(S) <= 2}}
        \cup {DownloadCmd(L) : L \in {S \in SUBSET Lics : Cardinality(S) \in {1, 2}}}
        \cup {DownloadAllCmd, LintCmd, SpdxCmd, ConvertCmd}
Sensible(c) == c.kind = "annotate" => (c.cop \/ c.lic # {})      \* annotate with nothing to add is a usage error

(* the documented effect on what the project declares *)
ApplyInfo(c, i) ==
   IF c.kind = "annotate"
   THEN [f \in DOMAIN i |-> IF f \in c.files THEN [cop |-> i[f].cop \/ c.cop, lic |-> i[f].lic \cup c.lic] ELSE i[f]]
   ELSE i
ApplyPresent(c, i, p) ==
   CASE c.kind = "download"     -> p \cup c.lic
     [] c.kind = "download-all" -> p \cup Missing(i, p)
     [] OTHER                   -> p
(* convert-dep5 moves the project-wide declaration from .reuse/dep5 into REUSE.toml; without a dep5 it refuses *)
ApplyGlob(c, g) == IF c.kind = "convert-dep5" /\ g = "dep5" THEN "toml" ELSE g
(* ... and the documented exit status (i = what the linter sees) *)
ExitOfG(c, i, p, g) ==
   IF c.kind = "convert-dep5" THEN (IF g = "dep5" THEN 0 ELSE 2)
   ELSE CASE c.kind = "lint"     -> IF Compliant(i, p) THEN 0 ELSE 1
          [] c.kind = "download" -> IF c.lic \cap p # {} THEN 1 ELSE 0
          [] OTHER               -> 0
ExitOf(c, i, p) ==
   CASE c.kind = "lint"         -> IF Compliant(i, p) THEN 0 ELSE 1
     [] c.kind = "download"     -> IF c.lic \cap p # {} THEN 1 ELSE 0        \* an existing text is refused, never replaced
     [] OTHER                   -> 0

Exec(c) == /\ Len(hist) < MaxCmds
           /\ Sensible(c)
           /\ info' = ApplyInfo(c, info)
           /\ present' = ApplyPresent(c, Seen(info, glob), present)
           /\ glob' = ApplyGlob(c, glob)
           /\ hist' = Append(hist, [cmd |-> c, exit |-> ExitOfG(c, Seen(info, glob), present, glob)])
           /\ UNCHANGED start

InfoChoices == {Nothing, [cop |-> TRUE, lic |-> {}]} \cup {[cop |-> b, lic |-> {x}] : b \in BOOLEAN, x \in Lics}
Init == /\ hist = <<>>
        /\ IF InitPick = "all"
           THEN info \in [Files -> InfoChoices] /\ present \in SUBSET Lics
           ELSE \E x \in Lics :
                  /\ info \in {[f \in Files |-> Nothing], [f \in Files |-> [cop |-> TRUE, lic |-> {x}]],
                               [f \in Files |-> IF f = CHOOSE g \in Files : TRUE THEN [cop |-> TRUE, lic |-> {x}] ELSE Nothing]}
                  /\ present \in {{}, {x}, Lics}
        /\ glob \in {"none", "dep5", "toml"}
        /\ start = [info |-> info, present |-> present, glob |-> glob]
Next == \E c \in Cmds : Exec(c)
Spec == Init /\ [][Next]_vars
(* for -simulate: one randomly drawn command per kind, so that behaviours mix the kinds evenly *)
Kinds == {"annotate", "annotate-everything", "download", "download-all", "lint", "spdx", "convert-dep5"}
GenPool(k) == IF k = "annotate-everything"            \* the tutorial's step: every file gets a holder and one licence
              THEN {AnnotateCmd(Files, TRUE, {x}) : x \in Lics}
              ELSE {x \in Cmds : x.kind = k /\ Sensible(x)}
GenNext == \E k \in Kinds : \E c \in {RandomElement(GenPool(k))} : Exec(c)

(* ------------------------------------------------------------------ laws *)
(* no command ever removes a declaration or a licence text *)
Monotone == [][/\ present \subseteq present'
               /\ \A f \in DOMAIN info : (info[f].cop => info'[f].cop) /\ info[f].lic \subseteq info'[f].lic]_vars
(* lint and spdx change nothing *)
ReadersReadOnly == [][hist'[Len(hist')].cmd.kind \in {"lint", "spdx"} => (info' = info /\ present' = present /\ glob' = glob)]_vars
(* C17 at this level: converting dep5 changes where the declaration lives, never what any file is seen to declare *)
ConversionKeepsAttribution == [][Seen(info', glob') = Seen(ApplyInfo(hist'[Len(hist')].cmd, info), glob)]_vars
OnlyConvertMovesGlob == [][glob' # glob => (hist'[Len(hist')].cmd.kind = "convert-dep5" /\ glob = "dep5" /\ glob' = "toml")]_vars
(* the tutorial's promise: annotate everything, download what is missing -> compliant (unless unused texts lie around) *)
Fixed(i, p, x) == LET i2 == ApplyInfo(AnnotateCmd(DOMAIN i, TRUE, {x}), i)
                  IN  <<i2, ApplyPresent(DownloadAllCmd, i2, p)>>
ComplianceReachable ==
   \A x \in Lics : LET s == Fixed(Seen(info, glob), present, x)
                   IN  Unused(s[1], s[2]) = {} => Compliant(s[1], s[2])
(* download --all supplies exactly the missing texts, and a second run finds nothing to do *)
DownloadAllExact == LET sn == Seen(info, glob)
                        p2 == ApplyPresent(DownloadAllCmd, sn, present)
                    IN  /\ Missing(sn, p2) = {}
                        /\ p2 \ present = Missing(sn, present)
                        /\ ApplyPresent(DownloadAllCmd, sn, p2) = p2
(* what lint says after download --all: the only licence trouble left is unused texts *)
(* annotate is idempotent on the abstract state *)
AnnotateIdempotent == \A c \in Cmds : c.kind = "annotate" => ApplyInfo(c, ApplyInfo(c, info)) = ApplyInfo(c, info)
(* a failed download (exit 1) still supplies the other requested texts *)
DownloadPartial == \A c \in Cmds : c.kind = "download" => ApplyPresent(c, info, present) = present \cup c.lic

(* ------------------------------------------------------------------ emission of behaviours for replay *)
RECURSIVE SetToSeq(_)
SetToSeq(T) == IF T = {} THEN <<>> ELSE LET x == CHOOSE y \in T : TRUE IN <<x>> \o SetToSeq(T \ {x})
InfoJson(i) == [f \in DOMAIN i |-> [cop |-> i[f].cop, lic |-> SetToSeq(i[f].lic)]]
CmdJson(c) == [kind |-> c.kind, files |-> SetToSeq(c.files), cop |-> c.cop, lic |-> SetToSeq(c.lic)]
Emit == Len(hist) = MaxCmds =>
          PrintT(ToJson([info |-> InfoJson(start.info), present |-> SetToSeq(start.present), glob |-> start.glob,
                         hist |-> [k \in 1..Len(hist) |-> [cmd |-> CmdJson(hist[k].cmd), exit |-> hist[k].exit]],
                         endinfo |-> InfoJson(info), endpresent |-> SetToSeq(present)]))
=====================================================================================
