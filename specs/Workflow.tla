---------------------------------- MODULE Workflow ----------------------------------
(* The tool as a state machine over WHAT A PROJECT DECLARES: cross-command laws.        *)
(*                                                                                      *)
(*   info    : covered file -> [cop : BOOLEAN, lic : SUBSET Lics]  what the linter reads *)
(*   present : SUBSET Lics                                      texts in LICENSES/      *)
(*   sib     : files whose declarations live in FILE.license                            *)
(*   hist    : the commands run so far, with the exit status each must have             *)
(*                                                                                      *)
(* One action per user-visible command; each is the documented effect of that command   *)
(* on the abstract state and its documented exit status:                                *)
(*   annotate  adds to what the named files declare (C07, C09), never removes           *)
(*   download  adds exactly the named / the missing texts, refuses existing ones (C19)  *)
(*   lint, spdx read only (C15); lint's exit status is 0 iff Compliant (C01)            *)
(*   convert-dep5 moves the project-wide declaration, attribution unchanged (C17)       *)
(* The same operators (Apply, ExitOf) judge recorded runs of the real tool in           *)
(* Trace_Workflow; the behaviours TLC explores here are replayed step by step with the  *)
(* abstract state compared after every command.                                         *)
EXTENDS Naturals, Sequences, FiniteSets, TLC, Json

CONSTANTS Files,        \* covered files of the project
          Lics,         \* licence identifiers in play (valid SPDX identifiers and LicenseRef-)
          GlobFiles,    \* the files a project-wide declaration (.reuse/dep5, or the REUSE.toml it is converted to) covers
          GlobLic,      \* ... and the licence it gives them (together with a copyright holder)
          MaxCmds,
          InitPick      \* which initial states to start from: "all" or "few"

VARIABLES info, present, hist,
          glob,          \* "none" | "dep5" | "toml": where the project-wide declaration lives
          sib,           \* the files whose own declarations live in a FILE.license sibling (which shadows the file's header)
          start          \* history variable: the initial state of this behaviour (for replay)
vars == <<info, present, hist, glob, sib, start>>

Nothing == [cop |-> FALSE, lic |-> {}]

(* what the linter sees: a file's own declarations aggregated with the project-wide one *)
Seen(i, g) == [f \in DOMAIN i |-> IF g # "none" /\ f \in GlobFiles THEN [cop |-> TRUE, lic |-> i[f].lic \cup {GlobLic}] ELSE i[f]]

(* ------------------------------------------------------------------ derived: the lint report (i = what the linter sees) *)
Used(i)        == UNION {i[f].lic : f \in DOMAIN i}
Missing(i, p)  == Used(i) \ p
Unused(i, p)   == p \ Used(i)
NoCop(i)       == {f \in DOMAIN i : ~i[f].cop}
NoLic(i)       == {f \in DOMAIN i : i[f].lic = {}}
Compliant(i, p) == Missing(i, p) = {} /\ Unused(i, p) = {} /\ NoCop(i) = {} /\ NoLic(i) = {}

(* ------------------------------------------------------------------ commands *)
(* annotate: dot = --force-dot-license (the header goes to FILE.license), skip = --skip-existing *)
AnnotateCmdX(F, c, L, d, k) == [kind |-> "annotate", files |-> F, cop |-> c, lic |-> L, dot |-> d, skip |-> k]
AnnotateCmd(F, c, L) == AnnotateCmdX(F, c, L, FALSE, FALSE)
Plain(k, F, L)       == [kind |-> k, files |-> F, cop |-> FALSE, lic |-> L, dot |-> FALSE, skip |-> FALSE]
DownloadCmd(L)       == Plain("download", {}, L)
DownloadAllCmd       == Plain("download-all", {}, {})
LintCmd              == Plain("lint", {}, {})
LintFileCmd(F)       == Plain("lint-file", F, {})
SpdxCmd              == Plain("spdx", {}, {})
ConvertCmd           == Plain("convert-dep5", {}, {})

Cmds == {AnnotateCmdX(F, c, L, d, k) : F \in (SUBSET Files) \ {{}}, c \in BOOLEAN, L \in {S \in SUBSET Lics : Cardinality(S) <= 2},
                                       d \in BOOLEAN, k \in BOOLEAN}
        \cup {DownloadCmd(L) : L \in {S \in SUBSET Lics : Cardinality(S) \in {1, 2}}}
        \cup {LintFileCmd(F) : F \in (SUBSET Files) \ {{}}}
        \cup {DownloadAllCmd, LintCmd, SpdxCmd, ConvertCmd}
Sensible(c) == c.kind = "annotate" => (c.cop \/ c.lic # {})      \* annotate with nothing to add is a usage error

(* the documented effect on what the project declares *)
Declares(x) == x.cop \/ x.lic # {}
(* --skip-existing looks at the text the header would go into: the file, its sibling if it has one - or the NEW sibling *)
(* that --force-dot-license is about to create, which is empty whatever the file itself declares                        *)
Skipped(c, i, s, f) == c.skip /\ Declares(i[f]) /\ (f \in s \/ ~c.dot)
ApplyInfoS(c, i, s) ==
   IF c.kind = "annotate"
   THEN [f \in DOMAIN i |-> IF f \in c.files /\ ~Skipped(c, i, s, f) THEN [cop |-> i[f].cop \/ c.cop, lic |-> i[f].lic \cup c.lic] ELSE i[f]]
   ELSE i
ApplyInfo(c, i) == ApplyInfoS(c, i, {})
(* a sibling appears where --force-dot-license writes one; nothing ever removes one *)
ApplySib(c, i, s) == IF c.kind = "annotate" /\ c.dot THEN s \cup {f \in c.files : ~Skipped(c, i, s, f)} ELSE s
ApplyPresent(c, i, p) ==
   CASE c.kind = "download"     -> p \cup c.lic
     [] c.kind = "download-all" -> p \cup Missing(i, p)
     [] OTHER                   -> p
(* convert-dep5 moves the project-wide declaration from .reuse/dep5 into REUSE.toml; without a dep5 it refuses *)
ApplyGlob(c, g) == IF c.kind = "convert-dep5" /\ g = "dep5" THEN "toml" ELSE g
(* ... and the documented exit status (i = what the linter sees) *)
(* lint-file F: the per-file problems of the named files, nothing about the licence inventory as a whole *)
FileTrouble(i, p, f) == ~i[f].cop \/ i[f].lic = {} \/ ~(i[f].lic \subseteq p)
ExitOf(c, i, p) ==
   CASE c.kind = "lint"         -> IF Compliant(i, p) THEN 0 ELSE 1
     [] c.kind = "lint-file"    -> IF \E f \in c.files : FileTrouble(i, p, f) THEN 1 ELSE 0
     [] c.kind = "download"     -> IF c.lic \cap p # {} THEN 1 ELSE 0        \* an existing text is refused, never replaced
     [] OTHER                   -> 0
ExitOfG(c, i, p, g) ==
   IF c.kind = "convert-dep5" THEN (IF g = "dep5" THEN 0 ELSE 2) ELSE ExitOf(c, i, p)

Exec(c) == /\ Len(hist) < MaxCmds
           /\ Sensible(c)
           /\ info' = ApplyInfoS(c, info, sib)
           /\ sib' = ApplySib(c, info, sib)
           /\ present' = ApplyPresent(c, Seen(info, glob), present)
           /\ glob' = ApplyGlob(c, glob)
           /\ hist' = Append(hist, [cmd |-> c, exit |-> ExitOfG(c, Seen(info, glob), present, glob)])
           /\ UNCHANGED start

InfoChoices == {Nothing, [cop |-> TRUE, lic |-> {}]} \cup {[cop |-> b, lic |-> {x}] : b \in BOOLEAN, x \in Lics}
Init == /\ hist = <<>>
        /\ IF InitPick = "all"
           THEN info \in [Files -> InfoChoices] /\ present \in SUBSET Lics
           ELSE \E x \in Lics :
                  /\ info \in {[f \in Files |-> Nothing], [f \in Files |-> [cop |-> TRUE, lic |-> {x}]],
                               [f \in Files |-> IF f = CHOOSE g \in Files : TRUE THEN [cop |-> TRUE, lic |-> {x}] ELSE Nothing]}
                  /\ present \in {{}, {x}, Lics}
        /\ glob \in {"none", "dep5", "toml"}
        /\ sib \in (IF InitPick = "all" THEN SUBSET {f \in Files : Declares(info[f])} ELSE {{}})     \* (an empty sibling is not generated)
        /\ start = [info |-> info, present |-> present, glob |-> glob, sib |-> sib]
Next == \E c \in Cmds : Exec(c)
Spec == Init /\ [][Next]_vars
(* for -simulate: one randomly drawn command per kind, so that behaviours mix the kinds evenly *)
Kinds == {"annotate", "annotate-everything", "download", "download-all", "lint", "lint-file", "spdx", "convert-dep5"}
GenPool(k) == IF k = "annotate-everything"            \* the tutorial's step: every file gets a holder and one licence
              THEN {AnnotateCmd(Files, TRUE, {x}) : x \in Lics}
              ELSE {x \in Cmds : x.kind = k /\ Sensible(x)}
(* (the pool is filtered by a state-dependent - always true - condition: TLC would otherwise evaluate the random draw *)
(* once, as a constant, and every behaviour would use the same command of each kind)                                *)
GenNext == /\ Len(hist) < MaxCmds
           /\ \E k \in Kinds : \E c \in {RandomElement({x \in GenPool(k) : Len(hist) < MaxCmds})} : Exec(c)

(* ------------------------------------------------------------------ laws *)
(* no command ever removes a declaration or a licence text *)
Monotone == [][/\ present \subseteq present'
               /\ \A f \in DOMAIN info : (info[f].cop => info'[f].cop) /\ info[f].lic \subseteq info'[f].lic]_vars
(* lint and spdx change nothing *)
ReadersReadOnly == [][hist'[Len(hist')].cmd.kind \in {"lint", "lint-file", "spdx"} => (info' = info /\ present' = present /\ glob' = glob /\ sib' = sib)]_vars
(* siblings only appear, and only where --force-dot-license was asked for *)
SiblingsOnlyGrow == [][sib \subseteq sib' /\ (sib' # sib => hist'[Len(hist')].cmd.dot)]_vars
(* --skip-existing never adds to a text that declares something already *)
SkipExistingLeavesDeclaringTextsAlone ==
   [][LET c == hist'[Len(hist')].cmd
      IN  c.kind = "annotate" /\ c.skip => \A f \in c.files : (Declares(info[f]) /\ (f \in sib \/ ~c.dot)) => info'[f] = info[f]]_vars
(* C13 at this level: lint-file on every file fails exactly when lint has a per-file or missing-licence complaint; *)
(* a compliant project passes lint-file for every subset                                                          *)
LintFileVsLint == LET sn == Seen(info, glob)
                  IN  /\ (ExitOf(LintFileCmd(Files), sn, present) = 1) <=> (NoCop(sn) # {} \/ NoLic(sn) # {} \/ Missing(sn, present) # {})
                      /\ Compliant(sn, present) => \A F \in (SUBSET Files) \ {{}} : ExitOf(LintFileCmd(F), sn, present) = 0
                      /\ \A F, G \in (SUBSET Files) \ {{}} : F \subseteq G /\ ExitOf(LintFileCmd(F), sn, present) = 1 => ExitOf(LintFileCmd(G), sn, present) = 1
(* C17 at this level: converting dep5 changes where the declaration lives, never what any file is seen to declare *)
ConversionKeepsAttribution == [][Seen(info', glob') = Seen(ApplyInfoS(hist'[Len(hist')].cmd, info, sib), glob)]_vars
OnlyConvertMovesGlob == [][glob' # glob => (hist'[Len(hist')].cmd.kind = "convert-dep5" /\ glob = "dep5" /\ glob' = "toml")]_vars
(* the tutorial's promise: annotate everything, download what is missing -> compliant (unless unused texts lie around) *)
Fixed(i, p, x) == LET i2 == ApplyInfo(AnnotateCmd(DOMAIN i, TRUE, {x}), i)
                  IN  <<i2, ApplyPresent(DownloadAllCmd, i2, p)>>
ComplianceReachable ==
   \A x \in Lics : LET s == Fixed(Seen(info, glob), present, x)
                   IN  Unused(s[1], s[2]) = {} => Compliant(s[1], s[2])
(* download --all supplies exactly the missing texts, and a second run finds nothing to do *)
DownloadAllExact == LET sn == Seen(info, glob)
                        p2 == ApplyPresent(DownloadAllCmd, sn, present)
                    IN  /\ Missing(sn, p2) = {}
                        /\ p2 \ present = Missing(sn, present)
                        /\ ApplyPresent(DownloadAllCmd, sn, p2) = p2
(* what lint says after download --all: the only licence trouble left is unused texts *)
(* annotate is idempotent on the abstract state *)
AnnotateIdempotent == \A c \in Cmds : c.kind = "annotate" => ApplyInfo(c, ApplyInfo(c, info)) = ApplyInfo(c, info)
(* a failed download (exit 1) still supplies the other requested texts *)
DownloadPartial == \A c \in Cmds : c.kind = "download" => ApplyPresent(c, info, present) = present \cup c.lic

(* ------------------------------------------------------------------ emission of behaviours for replay *)
RECURSIVE SetToSeq(_)
SetToSeq(T) == IF T = {} THEN <<>> ELSE LET x == CHOOSE y \in T : TRUE IN <<x>> \o SetToSeq(T \ {x})
InfoJson(i) == [f \in DOMAIN i |-> [cop |-> i[f].cop, lic |-> SetToSeq(i[f].lic)]]
CmdJson(c) == [kind |-> c.kind, files |-> SetToSeq(c.files), cop |-> c.cop, lic |-> SetToSeq(c.lic), dot |-> c.dot, skip |-> c.skip]
Emit == Len(hist) = MaxCmds =>
          PrintT(ToJson([info |-> InfoJson(start.info), present |-> SetToSeq(start.present), glob |-> start.glob, sib |-> SetToSeq(start.sib),
                         hist |-> [k \in 1..Len(hist) |-> [cmd |-> CmdJson(hist[k].cmd), exit |-> hist[k].exit]],
                         endinfo |-> InfoJson(info), endpresent |-> SetToSeq(present)]))
=====================================================================================
