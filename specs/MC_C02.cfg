CONSTANTS
  Terminators <- TerminatorSet
  SampleN = 0
SPECIFICATION Spec
INVARIANT MechanismMeetsRequirement
CHECK_DEADLOCK FALSE
