--------------------------------- MODULE GlobGen ---------------------------------
(* Enumerates every glob (sequence of characters) up to MaxLen as the reachable    *)
(* states of "append one character"; wf marks the well-formed ones (no trailing    *)
(* lone backslash), toks is R's reading of it.                                     *)
EXTENDS Glob
CONSTANTS GlobSym, MaxLen
GlobSymDefault == {"a", ".", "/", "*", "\\"}
VARIABLES g, wf
vars == <<g, wf>>
Init == g = <<>> /\ wf = TRUE
Next == /\ Len(g) < MaxLen
        /\ \E c \in GlobSym : g' = Append(g, c)
        /\ wf' = WellFormed(g')
Spec == Init /\ [][Next]_vars
(* sanity properties of R itself *)
TokCoversGlob == wf => (Len(Tok(g)) <= Len(g))
WideIsWider   == Len(Wide(g)) <= Len(Narrow(g))
=================================================================================
