CONSTANTS
  Files = {1, 2, 3, 4}
  Workers = {1, 2, 3}
  ChunkSize = 1
SPECIFICATION Spec
VIEW view
INVARIANT TypeOK
INVARIANT EachFileOnce
INVARIANT ScheduleFree
INVARIANT NoIdleWorkerHoldsWork
PROPERTY Terminates
CHECK_DEADLOCK FALSE
