CONSTANTS
  N = 1
  Git = FALSE
  Ctxs <- CtxsNoGit
  NameClasses <- AllNameClasses
  Types = {"text", "binary", "empty", "symlink", "special"}
  Wants = {"none"}
  SampleN = 0
SPECIFICATION Spec
INVARIANT MechanismMeetsRequirement
INVARIANT ClassesPartition
INVARIANT EveryClassDecided
CHECK_DEADLOCK FALSE
