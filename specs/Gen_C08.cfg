CONSTANTS
  MaxLines = 3
  StyleClasses = {"S1", "S2", "S3", "M1", "M2", "B1", "B2", "J"}
  WithMcx = FALSE
SPECIFICATION Spec
INVARIANT Emit
CHECK_DEADLOCK FALSE
