--------------------------------- MODULE Inventory ---------------------------------
(* C06 - generator and mechanism model for the licence inventory.                  *)
(*                                                                                 *)
(* A case has N identifier slots; slot k holds an identifier "ID<k>" of a class    *)
(*   cur | dep | exc | ref | unk      (the concretiser substitutes a real one)     *)
(* used in one way                                                                 *)
(*   none | alone | plus | and | or | with | paren | twotags | absorb | dotlicense | toml | dep5 *)
(* and provided in LICENSES/ in one way                                            *)
(*   absent | txt | md | noext | subdir | plusname | withdotlicense                *)
(* Around it a compliant skeleton: file base.py (MIT, provided).                   *)
(* R = Project!Missing/Unused/Bad.../NoExt.  M = the per-key set tests of          *)
(* FileReport.generate and ProjectReport.unused_licenses, transcribed.             *)
EXTENDS Project, TLC, Json

CONSTANTS N, Classes, Uses, Provs

VARIABLES slots, phase, step
vars == <<slots, phase, step>>
Slot == [cls : Classes, use : Uses, prov : Provs]
Sane(s) == /\ (s.use = "with" => s.cls \in {"cur", "dep", "exc", "unk", "ref"})
           /\ (s.prov = "noext" => TRUE)
Init == slots = <<>> /\ phase = "build" /\ step = 0
Next == \/ /\ phase = "build" /\ Len(slots) < N
           /\ \E s \in Slot : Sane(s) /\ slots' = Append(slots, s)
           /\ phase' = "build" /\ UNCHANGED step
        \/ /\ phase = "build" /\ Len(slots) = N /\ phase' = "case" /\ UNCHANGED <<slots, step>>
Spec == Init /\ [][Next]_vars

(* seeded sampling (tlc -seed S -workers 1): every state of the walk is a random case *)
CONSTANT SampleN
SampleInit == slots = <<>> /\ phase = "build" /\ step = 0 /\ step = 0
SampleNext == /\ slots' = [k \in 1..N |-> RandomElement({s \in Slot : Sane(s)})] /\ phase' = "case" /\ step' = step + 1
SampleSpec == SampleInit /\ [][SampleNext]_vars
SampleBound == TLCGet("level") <= SampleN

-----------------------------------------------------------------------------------
IdName(k) == "ID" \o ToString(k)
Leaf(key, base) == [key |-> key, base |-> base]
L(id) == [text |-> id, tree |-> Leaf(id, id)]
MITL == L("MIT")
plain == [cls |-> "plain", symlink |-> FALSE, ignored |-> FALSE, submodule |-> FALSE]
NoDot == [present |-> FALSE, cop |-> <<>>, lic |-> <<>>, bad |-> FALSE]
BaseFile(name, chars, lics) ==
   [path |-> <<name>>, pathstr |-> name, pchars |-> chars, ncls |-> "plain", type |-> "text", anc |-> <<>>,
    ignored |-> FALSE, unreadable |-> FALSE, cov |-> TRUE,
    own |-> [cop |-> <<"SPDX-FileCopyrightText: 2020 Some One">>, lic |-> lics, bad |-> FALSE], dot |-> NoDot]

(* the expressions slot k contributes to its user file u<k>.py *)
UseExprs(k) ==
   LET id == IdName(k)
       s  == slots[k]
       x  == IF s.cls = "exc" THEN [text |-> "MIT WITH " \o id,
                                     tree |-> [op |-> "WITH", l |-> Leaf("MIT", "MIT"), x |-> Leaf(id, id)]]
             ELSE [text |-> id \o " WITH Classpath-exception-2.0",
                   tree |-> [op |-> "WITH", l |-> Leaf(id, id), x |-> Leaf("Classpath-exception-2.0", "Classpath-exception-2.0")]]
   IN  CASE s.use \in {"alone", "dotlicense", "toml", "dep5"} -> <<L(id)>>
         [] s.use = "plus"    -> <<[text |-> id \o "+", tree |-> Leaf(id \o "+", id)]>>
         [] s.use = "and"     -> <<[text |-> "MIT AND " \o id, tree |-> [op |-> "AND", l |-> Leaf("MIT", "MIT"), r |-> Leaf(id, id)]]>>
         [] s.use = "or"      -> <<[text |-> id \o " OR MIT", tree |-> [op |-> "OR", l |-> Leaf(id, id), r |-> Leaf("MIT", "MIT")]]>>
         [] s.use = "with"    -> <<x>>
         [] s.use = "paren"   -> <<[text |-> "MIT AND (" \o id \o " OR 0BSD)",
                                    tree |-> [op |-> "AND", l |-> Leaf("MIT", "MIT"),
                                              r |-> [op |-> "OR", l |-> Leaf(id, id), r |-> Leaf("0BSD", "0BSD")]]]>>
         [] s.use = "twotags" -> <<MITL, L(id)>>
         \* the conjunction of the two tags is logically MIT alone: the identifier is used all the same
         [] s.use = "absorb"  -> <<MITL, [text |-> "MIT OR " \o id, tree |-> [op |-> "OR", l |-> Leaf("MIT", "MIT"), r |-> Leaf(id, id)]]>>
         [] OTHER -> <<>>
UserName(k)  == "u" \o ToString(k) \o ".py"
UserChars(k) == <<"u", ToString(k), ".", "p", "y">>
UserFile(k) ==
   LET s == slots[k]
       viaHeader == s.use \in {"alone", "plus", "and", "or", "with", "paren", "twotags", "absorb"}
       f == BaseFile(UserName(k), UserChars(k), IF viaHeader THEN UseExprs(k) ELSE <<>>)
   IN  CASE s.use = "dotlicense" ->
              [f EXCEPT !.dot = [present |-> TRUE, cop |-> <<"SPDX-FileCopyrightText: 2021 Dot One">>,
                                 lic |-> UseExprs(k), bad |-> FALSE]]
         [] s.use \in {"toml", "dep5"} -> [f EXCEPT !.own = [cop |-> <<>>, lic |-> <<>>, bad |-> FALSE]]
         [] OTHER -> f
Users == {k \in 1..Len(slots) : slots[k].use # "none"}
TomlUsers == {k \in Users : slots[k].use = "toml"}
Dep5Users == {k \in Users : slots[k].use = "dep5"}
UsesDep5 == Dep5Users # {}
(* dep5 and REUSE.toml exclude each other: with a dep5 user, toml users fall back to dep5 too *)
GlobalUsers == TomlUsers \cup Dep5Users

RECURSIVE Sorted(_)
Sorted(S) == IF S = {} THEN <<>> ELSE LET m == CHOOSE x \in S : \A y \in S : x <= y
                                      IN  <<m>> \o Sorted(S \ {m})
SeqOf(S, F(_)) == LET ss == Sorted(S) IN [i \in 1..Len(ss) |-> F(ss[i])]
LitSeq(chars) == [i \in 1..Len(chars) |-> Lit(chars[i])]
TomlTable(k) == [globs |-> <<UserChars(k)>>, prec |-> "override",
                 cop |-> <<"2022 Global " \o ToString(k)>>, lic |-> UseExprs(k)]
Dep5Para(k)  == [pats |-> <<LitSeq(UserChars(k))>>, patstr |-> UserName(k),
                 cop |-> <<"2022 Global " \o ToString(k)>>, lic |-> UseExprs(k)]

(* LICENSES/ entries of slot k *)
Entry(rel, name, stem, dl) == [rel |-> rel, name |-> name, stem |-> stem, dotlicense |-> dl]
ProvEntries(k) ==
   LET id == IdName(k)
   IN  CASE slots[k].prov = "absent"   -> <<>>
         [] slots[k].prov = "txt"      -> <<Entry(id \o ".txt", id \o ".txt", id, FALSE)>>
         [] slots[k].prov = "md"       -> <<Entry(id \o ".md", id \o ".md", id, FALSE)>>
         [] slots[k].prov = "noext"    -> <<Entry(id, id, id, FALSE)>>
         [] slots[k].prov = "subdir"   -> <<Entry("sub/" \o id \o ".txt", id \o ".txt", id, FALSE)>>
         [] slots[k].prov = "plusname" -> <<Entry(id \o "+.txt", id \o "+.txt", id \o "+", FALSE)>>
         [] slots[k].prov = "withdotlicense" ->
               <<Entry(id \o ".txt", id \o ".txt", id, FALSE),
                 Entry(id \o ".txt.license", id \o ".txt.license", id \o ".txt", TRUE)>>
RECURSIVE Flat(_)
Flat(ss) == IF ss = <<>> THEN <<>> ELSE ss[1] \o Flat(Tail(ss))
Helpers ==  \* identifiers the skeleton itself uses must be provided so that they add no defect
   <<Entry("MIT.txt", "MIT.txt", "MIT", FALSE)>>
     \o (IF \E k \in Users : slots[k].use = "paren" THEN <<Entry("0BSD.txt", "0BSD.txt", "0BSD", FALSE)>> ELSE <<>>)
     \o (IF \E k \in Users : slots[k].use = "with" /\ slots[k].cls # "exc"
         THEN <<Entry("Classpath-exception-2.0.txt", "Classpath-exception-2.0.txt", "Classpath-exception-2.0", FALSE)>> ELSE <<>>)

Proj ==
   [files |-> <<BaseFile("base.py", <<"b", "a", "s", "e", ".", "p", "y">>, <<MITL>>)>> \o SeqOf(Users, UserFile),
    licfiles |-> Helpers \o Flat([k \in 1..Len(slots) |-> ProvEntries(k)]),
    tomls |-> IF ~UsesDep5 /\ TomlUsers # {}
              THEN <<[dir |-> <<>>, dirchars |-> <<>>, srcstr |-> "REUSE.toml", tables |-> SeqOf(TomlUsers, TomlTable)]>>
              ELSE <<>>,
    dep5 |-> IF UsesDep5 THEN SeqOf(GlobalUsers, Dep5Para) ELSE <<>>,
    opts |-> [submodules |-> FALSE, meson |-> FALSE],
    cls |-> [s \in {IdName(k) : k \in 1..Len(slots)} \cup {"MIT", "0BSD", "Classpath-exception-2.0"} |->
               IF s = "MIT" \/ s = "0BSD" THEN "cur"
               ELSE IF s = "Classpath-exception-2.0" THEN "exc"
               ELSE slots[CHOOSE k \in 1..Len(slots) : IdName(k) = s].cls]]

Emit == phase = "case" => PrintT(ToJson([slots |-> slots, p |-> Proj]))

-----------------------------------------------------------------------------------
(* M: the set tests of the implementation.                                         *)
(* (MLicenseMap .. MDeprecated live in Project.tla, shared with Lint.tla) *)
Done == phase = "case"
MechanismMeetsRequirement ==
   Done => LET p == Proj IN
      /\ UNION {MMissingOf(p, p.files[i]) : i \in Covered(p)} = Missing(p)
      /\ MUnused(p) = Unused(p)
      /\ LET mb == UNION {MBadOf(p, p.files[i]) : i \in Covered(p)} \cup MBadProvided(p)
         IN  (BadUsed(p) \cup BadProvided(p)) \subseteq mb /\ mb \subseteq (BadUsed(p) \cup BadProvided(p) \cup BadLenient(p))
      /\ MDeprecated(p) = Deprecated(p)
(* set algebra of R itself *)
MissingNotProvided == Done => Missing(Proj) \cap Provided(Proj) = {}
UnusedIsProvided   == Done => Unused(Proj) \subseteq Provided(Proj)
UsedOrUnused       == Done => \A id \in Provided(Proj) : (id \in Unused(Proj)) # (\E u \in Used(Proj) : u.key = id \/ (u.base = id /\ u.key # u.base))
=================================================================================
