--------------------------------- MODULE Footprint ---------------------------------
(* C15: what each command is documented to touch, as a function of the command, the    *)
(* covered files and the symbolic links of the current project state.                  *)
EXTENDS Naturals, Sequences, FiniteSets
Readers == {"lint", "lint-json", "lint-lines", "lint-quiet", "lint-file", "spdx", "supported-licenses", "help", "version"}
StartsWithDir(p, d) == d = "" \/ (Len(p) > Len(d) /\ SubSeq(p, 1, Len(d) + 1) = d \o "/")
Sib(p) == p \o ".license"
FootprintOf(c, covered, symlinks) ==
   CASE c.kind \in Readers -> {}
     [] c.kind = "spdx-o" -> {c.out}
     [] c.kind = "annotate" ->        \* the files named (never through symlinks) and their .license siblings
          LET named == {p \in c.targets : p \notin symlinks}
          IN  named \cup {Sib(p) : p \in named}
     [] c.kind = "annotate-r" ->      \* covered files below the named directories and their siblings
          LET below == {p \in covered : \E d \in c.targets : StartsWithDir(p, d)}
              named == {p \in c.targets : p \in covered /\ p \notin symlinks}   \* -r with a plain file: that file
              both  == below \cup named
          IN  both \cup {Sib(p) : p \in both}
     [] c.kind = "convert-dep5" -> {".reuse/dep5", "REUSE.toml"}
     [] c.kind \in {"download", "download-src"} -> {"LICENSES/" \o i \o ".txt" : i \in c.targets} \cup (IF c.out = "" THEN {} ELSE {c.out})
     [] OTHER -> {}
(* download may only ADD: existing paths stay as they are *)
MayModifyExisting(c) == c.kind \notin {"download", "download-src"}
=================================================================================
