CONSTANTS
  MaxLen = 4
SPECIFICATION Spec
CHECK_DEADLOCK FALSE
