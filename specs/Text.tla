----------------------------------- MODULE Text -----------------------------------
(* String helpers (TLC evaluates Len, SubSeq and \o on strings).                    *)
EXTENDS Naturals, Sequences
StartsWith(s, t) == Len(s) >= Len(t) /\ SubSeq(s, 1, Len(t)) = t
EndsWith(s, t)   == Len(s) >= Len(t) /\ SubSeq(s, Len(s) - Len(t) + 1, Len(s)) = t
DropFirst(s, n)  == SubSeq(s, n + 1, Len(s))
DropLast(s, n)   == SubSeq(s, 1, Len(s) - n)
IsBlank(c) == c = " " \/ c = "\t"
RECURSIVE LStrip(_)
LStrip(s) == IF Len(s) > 0 /\ IsBlank(SubSeq(s, 1, 1)) THEN LStrip(DropFirst(s, 1)) ELSE s
RECURSIVE RStripT(_)
RStripT(s) == IF Len(s) > 0 /\ IsBlank(SubSeq(s, Len(s), Len(s))) THEN RStripT(DropLast(s, 1)) ELSE s
Strip(s) == LStrip(RStripT(s))
RECURSIVE Reverse(_)
Reverse(s) == IF Len(s) = 0 THEN "" ELSE Reverse(DropFirst(s, 1)) \o SubSeq(s, 1, 1)
(* index of the first occurrence of t in s, 0 if none *)
IndexOf(s, t) ==
   LET c == {i \in 1..(Len(s) - Len(t) + 1) : SubSeq(s, i, i + Len(t) - 1) = t}
   IN  IF c = {} THEN 0 ELSE CHOOSE i \in c : \A j \in c : i <= j
=================================================================================
