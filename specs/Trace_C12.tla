------------------------------- MODULE Trace_C12 -------------------------------
(* Trace validation for C12: every recorded run of the real extractor on a        *)
(* concretised token sequence is judged with the requirement operators of         *)
(* IgnoreBlock (VisIdx, Clean, Expected).  One event per step; total verdict.      *)
EXTENDS IgnoreBlock, Json, IOUtils, TLCExt, SequencesExt

Tr == ndJsonDeserialize(IOEnv.TRACE_FILE)
VARIABLE l

SetOf(s) == {s[i] : i \in 1..Len(s)}

(* event fields: toks, form, visUsed (indices the harness rendered for the         *)
(* block-free twin), obs / twin = [err, lic, cop, con (token indices read; 0 =     *)
(* a value that belongs to no token), raw (normalised strings)]                    *)
Verdict(e) ==
   LET t == e.toks
       v == VisIdx(t)
   IN  IF e.visUsed # SortedSeqOf(v) THEN "harness.twin-is-not-R"
       ELSE IF e.obs.err # e.twin.err \/ SetOf(e.obs.raw) # SetOf(e.twin.raw)
            THEN "C12.same-as-block-free-text"          \* blocks hide exactly what they enclose
       ELSE IF e.obs.has # e.twin.has                    \* the yes/no question "does this text hold REUSE information?"
            THEN "C12.information-present-same-as-block-free-text"   \* (contains_reuse_info, annotate --skip-existing)
       ELSE IF e.form = "skip"
            THEN (IF Clean(t) /\ e.obs.has # (IF Expected(t, "L") \cup Expected(t, "C") \cup Expected(t, "K") # {} THEN "yes" ELSE "no")
                  THEN "C12.information-present-iff-a-visible-tag" ELSE "")
       ELSE IF e.form = "filepoison"                      \* a line with an unparseable expression outside every block: the file
            THEN (IF e.obs.raw # <<>> THEN "C12.ignore-block-leaks-when-the-file-has-an-unparseable-expression" ELSE "")   \* contributes nothing
       ELSE IF Clean(t) /\ ( \/ e.obs.err
                             \/ SetOf(e.obs.lic) # Expected(t, "L")
                             \/ SetOf(e.obs.cop) # Expected(t, "C")
                             \/ (e.form \notin {"file", "sidecar"} /\ SetOf(e.obs.con) # Expected(t, "K"))     \* lint does not report contributors
                             \/ (e.obs.has # "na" /\ e.obs.has # (IF Expected(t, "L") \cup Expected(t, "C") \cup Expected(t, "K") # {} THEN "yes" ELSE "no")) )
            THEN "C12.visible-tags-read-hidden-tags-not"
       ELSE ""

KnownFinding(e, c) == ""     \* no open finding for C12 (the offset-0 defect was repaired)

TInit == l = 1 /\ toks = <<>> /\ inB = FALSE /\ vis = <<>> /\ form = "bare"
TNext == /\ l <= Len(Tr)
         /\ LET e == Tr[l]
                c == Verdict(e)
            IN  IF c = "" THEN TRUE
                ELSE PrintT(<<"REJECT", e.tid, 0, c, KnownFinding(e, c), <<e.toks, e.form>>>>)
         /\ l' = l + 1
         /\ toks' = Tr[l].toks /\ vis' = Tr[l].visUsed /\ form' = Tr[l].form /\ inB' = FALSE
TSpec == TInit /\ [][TNext]_<<l, vars>>
=================================================================================
