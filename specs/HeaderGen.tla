--------------------------------- MODULE HeaderGen ---------------------------------
(* Generator and model check for Header: every body of up to MaxLines lines over   *)
(* the line kinds of a style class, in replace and --no-replace mode.              *)
(* Invariant MechanismMeetsRequirement is  M |= R  on the abstract level.          *)
EXTENDS Header, Json
CONSTANTS MaxLines, StyleClasses, WithMcx
VARIABLES body, st, replace, inM
vars == <<body, st, replace, inM>>

Classes ==
   [ S1 |-> [name |-> "S1", single |-> TRUE,  multi |-> FALSE, shebangs |-> TRUE,  shebIsComment |-> TRUE,  prefixClash |-> FALSE],
     S2 |-> [name |-> "S2", single |-> TRUE,  multi |-> FALSE, shebangs |-> FALSE, shebIsComment |-> FALSE, prefixClash |-> FALSE],
     S3 |-> [name |-> "S3", single |-> TRUE,  multi |-> FALSE, shebangs |-> TRUE,  shebIsComment |-> FALSE, prefixClash |-> FALSE],
     M1 |-> [name |-> "M1", single |-> FALSE, multi |-> TRUE,  shebangs |-> FALSE, shebIsComment |-> FALSE, prefixClash |-> FALSE],
     M2 |-> [name |-> "M2", single |-> FALSE, multi |-> TRUE,  shebangs |-> TRUE,  shebIsComment |-> FALSE, prefixClash |-> FALSE],
     B1 |-> [name |-> "B1", single |-> TRUE,  multi |-> TRUE,  shebangs |-> TRUE,  shebIsComment |-> FALSE, prefixClash |-> FALSE],
     B2 |-> [name |-> "B2", single |-> TRUE,  multi |-> TRUE,  shebangs |-> FALSE, shebIsComment |-> FALSE, prefixClash |-> FALSE],
     J  |-> [name |-> "J",  single |-> TRUE,  multi |-> TRUE,  shebangs |-> TRUE,  shebIsComment |-> TRUE,  prefixClash |-> TRUE] ]

Common == {"code", "icode", "blank", "wsb", "fc", "fct"}
Outside(s) == Common \cup (IF s.single THEN {"sc", "sct", "isc"} ELSE {})
                     \cup (IF s.multi THEN {"mo", "mone", "monet"} ELSE {})
Inside == {"mm", "mmt", "mc"} \cup (IF WithMcx THEN {"mcx"} ELSE {})

Init == /\ body = <<>> /\ inM = FALSE /\ replace \in BOOLEAN
        /\ st \in {Classes[c] : c \in StyleClasses}
Add(k) == /\ body' = Append(body, [k |-> k, id |-> IF k = "blank" THEN 0 ELSE Len(body) + 1])
          /\ inM' = (k \in {"mo", "mm", "mmt"})
          /\ UNCHANGED <<st, replace>>
Next == /\ Len(body) < MaxLines
        /\ \/ (body = <<>> /\ st.shebangs /\ Add("sheb"))
           \/ (~inM /\ \E k \in Outside(st) : Add(k))
           \/ (~inM /\ body # <<>> /\ body[1].k = "sheb" /\ Add("dup"))
           \/ (inM /\ \E k \in Inside : Add(k))
Spec == Init /\ [][Next]_vars

Result == MAnnotate(st, body, replace)
MechanismMeetsRequirement == AnnotateRel(st, body, Result, replace) = ""           \* M |= R   (C08)
MFirstStaysFirst == FirstStaysFirst(body, Result)
Emit == body # <<>> => PrintT(ToJson([body |-> body, st |-> st.name, replace |-> replace, model |-> Result]))
=================================================================================
