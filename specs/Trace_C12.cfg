CONSTANTS
  MaxLen = 0
  Forms = {"bare"}
INIT TInit
NEXT TNext
CHECK_DEADLOCK FALSE
