---------------------------------- MODULE Download ----------------------------------
(* C19 - `reuse download` as a state machine with a fault point at every step.       *)
(*                                                                                   *)
(* State: fs        path -> content (absent paths are not in the domain)             *)
(*        pending   identifiers still to be handled (the request, '+' stripped)      *)
(*        cur, pc   the identifier being handled and the step within it              *)
(*        rc        exit status so far;  netlog  identifiers the network was asked   *)
(* Steps per identifier (put_license_in_file): Dest -> Mkdir -> ExistsCheck ->       *)
(*   Local (LicenseRef-: touch / copy from --source)  |  Fetch (ok / error) ->       *)
(*   Write -> next.  A failure at any step abandons THIS identifier only.            *)
(* Net is the scripted outcome per identifier: "ok" | "http" | "conn".               *)
EXTENDS Naturals, Sequences, FiniteSets, TLC, Json

CONSTANTS Ids,          \* identifiers that may be requested
          RefIds,       \* those that are LicenseRef-
          NetOutcomes,  \* {"ok", "http", "conn"}
          SourceHas     \* LicenseRef- identifiers for which --source provides a file ({} = no --source given)

VARIABLES fs, fs0, pending, cur, pc, rc, netlog, net, useSource, done, reqAll
vars == <<fs, fs0, pending, cur, pc, rc, netlog, net, useSource, done, reqAll>>

Dest(id) == "LICENSES/" \o id \o ".txt"
Init == /\ fs0 \in {[p \in S |-> "old"] : S \in SUBSET {Dest(i) : i \in Ids}}      \* any pre-existing state of LICENSES/
        /\ fs = fs0
        /\ pending \in (SUBSET Ids) \ {{}} /\ reqAll = pending
        /\ net \in [Ids -> NetOutcomes]
        /\ useSource \in BOOLEAN
        /\ cur = "" /\ pc = "pick" /\ rc = 0 /\ netlog = {} /\ done = {}

Pick == /\ pc = "pick" /\ pending # {}
        /\ \E i \in pending : cur' = i /\ pending' = pending \ {i}
        /\ pc' = "exists" /\ UNCHANGED <<fs, fs0, rc, netlog, net, useSource, done, reqAll>>
ExistsCheck ==
   /\ pc = "exists"
   /\ IF Dest(cur) \in DOMAIN fs
      THEN rc' = 1 /\ pc' = "pick" /\ UNCHANGED <<fs, netlog>>                      \* FileExistsError: never overwrite
      ELSE rc' = rc /\ pc' = (IF cur \in RefIds THEN "local" ELSE "fetch") /\ UNCHANGED <<fs, netlog>>
   /\ UNCHANGED <<fs0, pending, cur, net, useSource, done, reqAll>>
Local ==
   /\ pc = "local"
   /\ IF useSource /\ cur \notin SourceHas
      THEN rc' = 1 /\ UNCHANGED fs                                                   \* FileNotFoundError
      ELSE rc' = rc /\ fs' = [p \in DOMAIN fs \cup {Dest(cur)} |-> IF p = Dest(cur) THEN (IF useSource THEN "source" ELSE "") ELSE fs[p]]
   /\ pc' = "pick" /\ UNCHANGED <<fs0, pending, cur, netlog, net, useSource, done, reqAll>>
Fetch ==
   /\ pc = "fetch" /\ netlog' = netlog \cup {cur}
   /\ IF net[cur] = "ok" THEN pc' = "write" /\ rc' = rc ELSE pc' = "pick" /\ rc' = 1  \* nothing was opened yet
   /\ UNCHANGED <<fs, fs0, pending, cur, net, useSource, done, reqAll>>
Write ==
   /\ pc = "write"
   /\ fs' = [p \in DOMAIN fs \cup {Dest(cur)} |-> IF p = Dest(cur) THEN "text:" \o cur ELSE fs[p]]
   /\ pc' = "pick" /\ UNCHANGED <<fs0, pending, cur, rc, netlog, net, useSource, done, reqAll>>
Finish == pc = "pick" /\ pending = {} /\ pc' = "done" /\ UNCHANGED <<fs, fs0, pending, cur, rc, netlog, net, useSource, done, reqAll>>
Next == Pick \/ ExistsCheck \/ Local \/ Fetch \/ Write \/ Finish
Spec == Init /\ [][Next]_vars /\ WF_vars(Next)

-----------------------------------------------------------------------------------
NeverOverwrites == \A p \in DOMAIN fs0 : p \in DOMAIN fs /\ fs[p] = fs0[p]                       \* existing files never change
OnlyLicenseFiles == DOMAIN fs \subseteq DOMAIN fs0 \cup {Dest(i) : i \in Ids}
NoPartialFile == \A i \in Ids : (Dest(i) \in DOMAIN fs \ DOMAIN fs0) =>
                    (IF i \in RefIds THEN fs[Dest(i)] \in {"", "source"} ELSE fs[Dest(i)] = "text:" \o i /\ net[i] = "ok")
RefNeedsNoNetwork == netlog \cap RefIds = {}
ExitStatusTellsFailure ==       \* at the end: rc = 0 iff every requested identifier now has its file and none pre-existed... (rc = 1 iff some step failed)
   pc = "done" => (rc = 0 <=> \A i \in Ids : (i \in reqAll) => (Dest(i) \in DOMAIN fs /\ Dest(i) \notin DOMAIN fs0))
Terminates == <>(pc = "done")
RECURSIVE SetToSeq(_)
SetToSeq(T) == IF T = {} THEN <<>> ELSE LET x == CHOOSE y \in T : TRUE IN <<x>> \o SetToSeq(T \ {x})
(* generation: every initial state is one case for the replay harness *)
Emit == (pc = "pick" /\ cur = "") => PrintT(ToJson([existing |-> SetToSeq(DOMAIN fs0), request |-> SetToSeq(pending),
                                                     net |-> [i \in pending |-> net[i]], useSource |-> useSource]))
=================================================================================
