--------------------------------- MODULE Trace_C14 ---------------------------------
(* Trace validation for C14.  One event = one project tree observed under many     *)
(* hidden-parameter settings:                                                      *)
(*   e.runs  : <<[cfg, exit, lint, spdx]>>  normalised outputs (canonical strings; *)
(*             "" where a command was not run under that setting)                  *)
(*   e.pools : <<[order, cs, procs]>>  recorded executions of the REAL process     *)
(*             pool: the task order handed to pool.map, its chunk size, and per    *)
(*             worker process the sequence of covered files it opened              *)
(* R: all runs agree (ScheduleFree of module LintPool, observed), and every        *)
(* recorded pool execution is a behaviour of LintPool: the chunks of the task      *)
(* order are distributed over the workers, every file is processed exactly once,   *)
(* each worker works through whole chunks in increasing order.                     *)
EXTENDS Naturals, Sequences, FiniteSets, Json, IOUtils, TLC, TLCExt
Tr == ndJsonDeserialize(IOEnv.TRACE_FILE)
VARIABLE l

SeqSet(s) == {s[i] : i \in 1..Len(s)}
Pos(s, x) == CHOOSE i \in 1..Len(s) : s[i] = x
ChunkOf(pl, f) == ((Pos(pl.order, f) - 1) \div pl.cs) + 1
NoDup(s) == \A i, j \in 1..Len(s) : i # j => s[i] # s[j]

PoolLogOK(pl) ==
   /\ NoDup(pl.order)
   /\ \A k \in 1..Len(pl.procs) : NoDup(pl.procs[k]) /\ SeqSet(pl.procs[k]) \subseteq SeqSet(pl.order)
   /\ UNION {SeqSet(pl.procs[k]) : k \in 1..Len(pl.procs)} = SeqSet(pl.order)          \* none lost
   /\ \A j, k \in 1..Len(pl.procs) : j # k => SeqSet(pl.procs[j]) \cap SeqSet(pl.procs[k]) = {}   \* none twice
   /\ \A k \in 1..Len(pl.procs) :
        LET s == pl.procs[k]
        IN  /\ \A i \in 1..(Len(s) - 1) :                                                \* whole chunks, in order
                 \/ ChunkOf(pl, s[i]) < ChunkOf(pl, s[i + 1])
                 \/ (ChunkOf(pl, s[i]) = ChunkOf(pl, s[i + 1]) /\ Pos(pl.order, s[i]) < Pos(pl.order, s[i + 1]))
            /\ \A f \in SeqSet(s) : \A g \in SeqSet(pl.order) : ChunkOf(pl, g) = ChunkOf(pl, f) => g \in SeqSet(s)

Lints(e) == {e.runs[i].lint : i \in {i \in 1..Len(e.runs) : e.runs[i].lint # ""}}
Spdxs(e) == {e.runs[i].spdx : i \in {i \in 1..Len(e.runs) : e.runs[i].spdx # ""}}
Exits(e) == {e.runs[i].exit : i \in 1..Len(e.runs)}
Odd(e) ==    \* a setting whose lint output differs from the first run's
   LET d == {i \in 1..Len(e.runs) : e.runs[i].lint # "" /\ e.runs[i].lint # e.runs[1].lint}
   IN  IF d = {} THEN "" ELSE e.runs[CHOOSE i \in d : \A j \in d : i <= j].cfg
OddSpdx(e) ==
   LET first == CHOOSE i \in 1..Len(e.runs) : e.runs[i].spdx # "" /\ \A j \in 1..(i - 1) : e.runs[j].spdx = ""
       d == {i \in 1..Len(e.runs) : e.runs[i].spdx # "" /\ e.runs[i].spdx # e.runs[first].spdx}
   IN  IF d = {} THEN "" ELSE e.runs[CHOOSE i \in d : \A j \in d : i <= j].cfg

Verdict(e) ==
   IF e.crash # "" THEN <<"crash", e.crash>>
   ELSE IF Cardinality(Exits(e)) > 1 THEN <<"C14.exit-status-depends-on-hidden-parameter", "">>
   ELSE IF Cardinality(Lints(e)) > 1 THEN <<"C14.lint-depends-on-hidden-parameter", Odd(e)>>
   ELSE IF Cardinality(Spdxs(e)) > 1 THEN <<"C14.spdx-depends-on-hidden-parameter", OddSpdx(e)>>
   ELSE IF \E k \in 1..Len(e.pools) : ~PoolLogOK(e.pools[k]) THEN <<"C14.pool-execution-is-not-a-LintPool-behaviour", "">>
   ELSE <<"", "">>

KnownFinding(e, c) == ""
TInit == l = 1
TNext == /\ l <= Len(Tr)
         /\ LET e == Tr[l]
                v == Verdict(e)
            IN  IF v[1] = "" THEN TRUE ELSE PrintT(<<"REJECT", e.tid, 0, v[1], KnownFinding(e, v[1]), <<e.label, v[2]>>>>)
         /\ l' = l + 1
=================================================================================
