---------------------------------- MODULE Glob ----------------------------------
(* C05 (and C17, C04): the language of a REUSE.toml path glob.                     *)
(*                                                                                 *)
(* A glob and a path are sequences of one-character strings.  The requirement R    *)
(* is a tokeniser (Tok) into items                                                 *)
(*     lit c   - exactly the character c                                           *)
(*     star    - any run of characters other than "/"     [one asterisk]           *)
(*     gs      - any run of characters                    [two or more asterisks]  *)
(*     gsl     - empty, or any run of characters ending in "/"                     *)
(* and two readings of it: Narrow (the written specification: ** is just gs) and   *)
(* Wide (established usage: a globstar followed by "/" may also match zero         *)
(* directories, i.e. gs followed                                                   *)
(* by lit "/" is read as gsl).  An item sequence is a non-deterministic automaton; *)
(* Start/Step/Acc below are its subset construction, so "for every path" becomes a *)
(* reachability question that TLC answers exactly (module GlobProduct).            *)
(*                                                                                 *)
(* M (mechanism): Translate, the character loop of                                 *)
(* AnnotationsItem.__attrs_post_init__.translate, producing the same items.        *)
EXTENDS Naturals, Sequences, FiniteSets

Lit(c) == [k |-> "lit", c |-> c]
Star   == [k |-> "star", c |-> ""]
GS     == [k |-> "gs", c |-> ""]
GSL    == [k |-> "gsl", c |-> ""]
Any1   == [k |-> "any1", c |-> ""]          \* exactly one character (the dep5 "?" wildcard; REUSE.toml has none)

-----------------------------------------------------------------------------------
(* R: tokeniser.  A backslash makes the next character literal; a run of two or    *)
(* more unescaped asterisks is a globstar; a single one excludes "/".              *)
RECURSIVE WellFormed(_)
WellFormed(g) ==
   IF g = <<>> THEN TRUE
   ELSE IF g[1] = "\\" THEN Len(g) >= 2 /\ WellFormed(SubSeq(g, 3, Len(g)))
   ELSE WellFormed(Tail(g))

RECURSIVE StarRun(_)
StarRun(g) == IF g # <<>> /\ g[1] = "*" THEN 1 + StarRun(Tail(g)) ELSE 0

RECURSIVE Tok(_)
Tok(g) ==
   IF g = <<>> THEN <<>>
   ELSE IF g[1] = "\\"
        THEN IF Len(g) = 1 THEN <<>>                                  \* ill-formed, outside the domain
             ELSE <<Lit(g[2])>> \o Tok(SubSeq(g, 3, Len(g)))
   ELSE IF g[1] = "*"
        THEN LET n == StarRun(g)
             IN  <<IF n = 1 THEN Star ELSE GS>> \o Tok(SubSeq(g, n + 1, Len(g)))
   ELSE <<Lit(g[1])>> \o Tok(Tail(g))

Narrow(g) == Tok(g)

RECURSIVE Widen(_)
Widen(its) ==
   IF its = <<>> THEN <<>>
   ELSE IF Len(its) >= 2 /\ its[1] = GS /\ its[2] = Lit("/")
        THEN <<GSL>> \o Widen(SubSeq(its, 3, Len(its)))
   ELSE <<its[1]>> \o Widen(Tail(its))
Wide(g) == Widen(Tok(g))

-----------------------------------------------------------------------------------
(* Item sequences as automata.  State 2p: items 1..p consumed; state 2p+1: inside  *)
(* item p+1 (used by gsl only).  Sets of states are closed under empty moves.      *)
RECURSIVE Closure(_, _)
Closure(its, S) ==
   LET add == UNION { LET p == s \div 2 IN
                      IF s % 2 = 0 /\ p < Len(its)
                      THEN CASE its[p + 1].k \in {"star", "gs"} -> {2 * (p + 1)}
                             [] its[p + 1].k = "gsl"            -> {2 * (p + 1), 2 * p + 1}
                             [] OTHER                            -> {}
                      ELSE {} : s \in S }
   IN  IF add \subseteq S THEN S ELSE Closure(its, S \cup add)

Start(its) == Closure(its, {0})

Step(its, S, c) ==
   Closure(its,
      UNION { LET p == s \div 2 IN
              IF p >= Len(its) THEN {}
              ELSE IF s % 2 = 1 THEN {s} \cup (IF c = "/" THEN {2 * (p + 1)} ELSE {})     \* inside gsl
              ELSE CASE its[p + 1].k = "lit"  -> IF its[p + 1].c = c THEN {2 * (p + 1)} ELSE {}
                     [] its[p + 1].k = "star" -> IF c # "/" THEN {s} ELSE {}
                     [] its[p + 1].k = "gs"   -> {s}
                     [] its[p + 1].k = "any1" -> {2 * (p + 1)}
                     [] OTHER                  -> {}
              : s \in S })

Acc(its, S) == (2 * Len(its)) \in S

RECURSIVE Run(_, _, _)
Run(its, S, path) == IF path = <<>> THEN S ELSE Run(its, Step(its, S, path[1]), Tail(path))
Matches(its, path) == Acc(its, Run(its, Start(its), path))

(* several globs of one annotation: the union *)
MatchesAny(itss, path) == \E i \in 1..Len(itss) : Matches(itss[i], path)

-----------------------------------------------------------------------------------
(* M: the translation loop of the implementation (after the repair of the          *)
(* deferred-asterisk state machine): scan left to right; backslash takes the next  *)
(* character literally (a trailing lone backslash is dropped); a run of asterisks  *)
(* is one item - star for one, gsl for two or more followed by "/" (the slash is   *)
(* consumed), gs otherwise; any other character is a literal.                      *)
RECURSIVE Translate(_)
Translate(g) ==
   IF g = <<>> THEN <<>>
   ELSE IF g[1] = "\\"
        THEN IF Len(g) = 1 THEN <<>> ELSE <<Lit(g[2])>> \o Translate(SubSeq(g, 3, Len(g)))
   ELSE IF g[1] = "*"
        THEN LET n == StarRun(g)
                 rest == SubSeq(g, n + 1, Len(g))
             IN  IF n = 1 THEN <<Star>> \o Translate(rest)
                 ELSE IF rest # <<>> /\ rest[1] = "/" THEN <<GSL>> \o Translate(Tail(rest))
                 ELSE <<GS>> \o Translate(rest)
   ELSE <<Lit(g[1])>> \o Translate(Tail(g))
=================================================================================
