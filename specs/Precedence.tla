-------------------------------- MODULE Precedence --------------------------------
(* C04 - generator and mechanism model for "sources and precedence".               *)
(*                                                                                 *)
(* A case is one covered file a/b/f (text or binary) with                          *)
(*   own   in {none, cop, lic, both, bad, binary}     what its content declares    *)
(*   dot   in {absent, empty, cop, lic, both}         its .license sibling         *)
(*   chain : level 1..3 -> sequence of 0..2 tables    REUSE.toml at  /, a/, a/b/   *)
(*           table = [prec, info, glob]               glob in {all, exact, nomatch}*)
(*   dep5  in {none, match, nomatch}                  (only with an empty chain)   *)
(* Every reachable state is one case; Proj is the abstract project (module Project)*)
(* it denotes, with distinct values per source so that every reported item can be  *)
(* attributed.  R = Project!InfoOf.  M = MInfoOf below, the sequential algorithm   *)
(* of NestedReuseTOML.reuse_info_of + Project.reuse_info_of.                       *)
EXTENDS Project, TLC, Json

CONSTANTS Depth,        \* deepest REUSE.toml level used (1..3)
          MaxTables,    \* 1 or 2 tables per REUSE.toml
          WithDep5      \* BOOLEAN

Own   == {"none", "cop", "lic", "both", "bad", "binary"}
Dot   == {"absent", "empty", "cop", "lic", "both"}
Prec  == {"closest", "aggregate", "override"}
Inf   == {"none", "cop", "lic", "both"}
Table1 == [prec : Prec, info : Inf, glob : {"all", "exact"}]
Table2 == [prec : Prec, info : Inf, glob : {"all", "exact", "nomatch"}]     \* (a literal path and a glob may meet in one file)
LevelOpts == {<<>>} \cup {<<t>> : t \in Table1}
               \cup (IF MaxTables >= 2 THEN {<<t, u>> : t \in Table2, u \in Table2} ELSE {})

VARIABLES own, dot, chain, dep5, phase, step
vars == <<own, dot, chain, dep5, phase, step>>

Chains == {[k \in 1..3 |-> IF k <= Depth THEN c[k] ELSE <<>>] : c \in [1..Depth -> LevelOpts]}
Dep5s  == IF WithDep5 THEN {"match", "nomatch"} ELSE {}
NoChain == [k \in 1..3 |-> <<>>]
(* Two steps so that TLC's workers share the enumeration: first the file, then its  *)
(* configuration.  Cases are the states with phase = "case".                        *)
Init == /\ own \in Own /\ dot \in Dot /\ chain = NoChain /\ dep5 = "none" /\ phase = "file" /\ step = 0
Next == /\ phase = "file" /\ phase' = "case" /\ UNCHANGED <<own, dot, step>>
        /\ \/ chain' \in Chains /\ dep5' = "none"
           \/ chain' = NoChain /\ dep5' \in Dep5s
Spec == Init /\ [][Next]_vars

(* seeded sampling of the same space (tlc -seed S -workers 1): a random walk whose  *)
(* every state is an independent random case *)
CONSTANT SampleN
SampleInit == own = "none" /\ dot = "absent" /\ chain = NoChain /\ dep5 = "none" /\ phase = "file" /\ step = 0
SampleNext == /\ own' = RandomElement(Own) /\ dot' = RandomElement(Dot)
              /\ chain' = [k \in 1..3 |-> IF k <= Depth THEN RandomElement(LevelOpts) ELSE <<>>]
              /\ dep5' = "none" /\ phase' = "case" /\ step' = step + 1
SampleSpec == SampleInit /\ [][SampleNext]_vars
SampleBound == TLCGet("level") <= SampleN

-----------------------------------------------------------------------------------
(* the abstract project denoted by a case *)
Leaf(id) == [text |-> id, tree |-> [key |-> id, base |-> id]]
FName == IF own = "binary" THEN "f.bin" ELSE "f.py"
FNameChars == IF own = "binary" THEN <<"f", ".", "b", "i", "n">> ELSE <<"f", ".", "p", "y">>
(* names of the two directory levels (one character each); a configuration may substitute others, e.g. names that *)
(* sort before "REUSE.toml" as strings but not as path components: D1 <- D1Alt, D2 <- D2Alt                        *)
D1 == "a"
D2 == "b"
D1Alt == "3"
D2Alt == "D"
D2Nl  == "li\nne"        \* a directory name with a line break in it: "**" spans it like any other character that is not "/"
LevelDir(k)      == CASE k = 1 -> <<>> [] k = 2 -> <<D1>> [] k = 3 -> <<D1, D2>>
LevelDirChars(k) == CASE k = 1 -> <<>> [] k = 2 -> <<D1>> [] k = 3 -> <<D1, "/", D2>>
LevelSrc(k)      == CASE k = 1 -> "REUSE.toml" [] k = 2 -> D1 \o "/REUSE.toml" [] k = 3 -> D1 \o "/" \o D2 \o "/REUSE.toml"
ExactGlob(k) == CASE k = 1 -> <<D1, "/", D2, "/">> \o FNameChars
                  [] k = 2 -> <<D2, "/">> \o FNameChars
                  [] k = 3 -> FNameChars
GlobOf(kind, k) == CASE kind = "all" -> <<"*", "*">>
                     [] kind = "exact" -> ExactGlob(k)
                     [] kind = "nomatch" -> <<"z", "z", "/", "*", "*">>
TomlLic(k, j) == CASE k = 1 /\ j = 1 -> "0BSD"       [] k = 1 /\ j = 2 -> "Zlib"
                   [] k = 2 /\ j = 1 -> "Apache-2.0" [] k = 2 /\ j = 2 -> "CC0-1.0"
                   [] k = 3 /\ j = 1 -> "BSD-3-Clause" [] k = 3 /\ j = 2 -> "MPL-2.0"
TomlCop(k, j) == CASE k = 1 /\ j = 1 -> "2001 Toml One A"   [] k = 1 /\ j = 2 -> "2001 Toml One B"
                   [] k = 2 /\ j = 1 -> "2002 Toml Two A"   [] k = 2 /\ j = 2 -> "2002 Toml Two B"
                   [] k = 3 /\ j = 1 -> "2003 Toml Three A" [] k = 3 /\ j = 2 -> "2003 Toml Three B"
HasCop(i) == i \in {"cop", "both"}
HasLic(i) == i \in {"lic", "both"}
TableOf(t, k, j) == [globs |-> <<GlobOf(t.glob, k)>>, prec |-> t.prec,
                     cop |-> IF HasCop(t.info) THEN <<TomlCop(k, j)>> ELSE <<>>,
                     lic |-> IF HasLic(t.info) THEN <<Leaf(TomlLic(k, j))>> ELSE <<>>]
TomlOf(k) == [dir |-> LevelDir(k), dirchars |-> LevelDirChars(k), srcstr |-> LevelSrc(k),
              tables |-> [j \in 1..Len(chain[k]) |-> TableOf(chain[k][j], k, j)]]
Levels == {k \in 1..3 : chain[k] # <<>>}
RECURSIVE SeqOfLevels(_)
SeqOfLevels(S) == IF S = {} THEN <<>> ELSE LET m == CHOOSE x \in S : \A y \in S : x <= y
                                           IN  <<TomlOf(m)>> \o SeqOfLevels(S \ {m})
File == [path |-> <<D1, D2, FName>>, pathstr |-> D1 \o "/" \o D2 \o "/" \o FName,
         pchars |-> <<D1, "/", D2, "/">> \o FNameChars,
         ncls |-> "plain", type |-> IF own = "binary" THEN "binary" ELSE "text",
         anc |-> <<[cls |-> "plain", symlink |-> FALSE, ignored |-> FALSE, submodule |-> FALSE],
                   [cls |-> "plain", symlink |-> FALSE, ignored |-> FALSE, submodule |-> FALSE]>>,
         ignored |-> FALSE, unreadable |-> FALSE, cov |-> TRUE,
         own |-> [cop |-> IF HasCop(own) THEN <<"SPDX-FileCopyrightText: 2010 Own Holder">> ELSE <<>>,
                  lic |-> IF HasLic(own) THEN <<Leaf("MIT")>> ELSE <<>>,
                  bad |-> own = "bad"],
         dot |-> [present |-> dot # "absent",
                  cop |-> IF HasCop(dot) THEN <<"SPDX-FileCopyrightText: 2011 Dot Holder">> ELSE <<>>,
                  lic |-> IF HasLic(dot) THEN <<Leaf("ISC")>> ELSE <<>>,
                  bad |-> FALSE]]
Dep5Para == [pats |-> IF dep5 = "match" THEN <<<<Lit(D1), Lit("/"), GS>>>> ELSE <<<<Lit("z"), Lit("/"), GS>>>>,
             patstr |-> IF dep5 = "match" THEN D1 \o "/*" ELSE "z/*",
             cop |-> <<"2005 Dep Five">>, lic |-> <<Leaf("Unlicense")>>]
(* a second file in the same directory that declares nothing itself: whatever a table says for it must not depend on *)
(* what the tool did for the first file before (one process, one Project object)                                      *)
GNameChars == <<"g", ".", "p", "y">>
File2 == [File EXCEPT !.path = <<D1, D2, "g.py">>, !.pathstr = D1 \o "/" \o D2 \o "/g.py", !.pchars = <<D1, "/", D2, "/">> \o GNameChars,
                      !.type = "text",
                      !.own = [cop |-> <<>>, lic |-> <<>>, bad |-> FALSE],
                      !.dot = [present |-> FALSE, cop |-> <<>>, lic |-> <<>>, bad |-> FALSE]]
Proj == [files |-> <<File, File2>>, licfiles |-> <<>>, tomls |-> SeqOfLevels(Levels),
         dep5 |-> IF dep5 = "none" THEN <<>> ELSE <<Dep5Para>>,
         opts |-> [submodules |-> FALSE, meson |-> FALSE], cls |-> <<>>]

-----------------------------------------------------------------------------------
(* M: the implementation's algorithm, step by step.                                *)
(* 1. relevant REUSE.toml files sorted by depth, each with its LAST matching table *)
(*    (Project!Matching transcribes _find_relevant_tomls_and_items);               *)
(* 2. walk top-down, collect per precedence, stop after the first override;        *)
(* 3. clean up CLOSEST: iterate deepest-first with two flags;                      *)
(* 4. combine with the file's own result.                                          *)
RECURSIVE Walk(_, _)                                  \* indices kept, stops after first override
Walk(m, i) == IF i > Len(m) THEN <<>>
              ELSE IF m[i].tb.prec = "override" THEN <<i>>
              ELSE <<i>> \o Walk(m, i + 1)
RECURSIVE CleanClosest(_, _, _, _)                    \* ids: closest indices deepest first
CleanClosest(m, ids, copFound, licFound) ==
   IF ids = <<>> THEN {}
   ELSE LET e == m[ids[1]]
            takeCop == ~copFound /\ Len(e.tb.cop) > 0
            takeLic == ~licFound /\ Len(e.tb.lic) > 0
        IN  TbItems(e, (IF takeCop THEN {"cop"} ELSE {}) \cup (IF takeLic THEN {"lic"} ELSE {}))
              \cup CleanClosest(m, Tail(ids), copFound \/ takeCop, licFound \/ takeLic)
RECURSIVE Rev(_)
Rev(s) == IF s = <<>> THEN <<>> ELSE Rev(Tail(s)) \o <<s[1]>>
MInfoOfToml(p, f, pinned) ==
   LET m    == Matching(p, f)
       kept == Walk(m, 1)
       byPrec(pr) == SelectSeq(kept, LAMBDA i : m[i].tb.prec = pr)
       ovr  == UNION {TbItems(m[i], {"cop", "lic"}) : i \in SeqSet(byPrec("override"))}
       agg  == UNION {TbItems(m[i], {"cop", "lic"}) : i \in SeqSet(byPrec("aggregate"))}
       clo  == CleanClosest(m, Rev(byPrec("closest")), FALSE, FALSE)
       file == IF byPrec("override") # <<>> THEN {} ELSE FileInfo(f)
       fCop == \E it \in file : it.kind = "cop"
       fLic == \E it \in file : it.kind = "lic"
       \* the pinned code took only the FIRST cleaned closest entry in the xor case
       firstClo == LET c == byPrec("closest")
                       keptClo == SelectSeq(c, LAMBDA i : \E it \in clo : it.src = m[i].toml.srcstr)
                   IN  IF keptClo = <<>> THEN {} ELSE {it \in clo : it.src = m[keptClo[1]].toml.srcstr}
       cloX == IF pinned THEN firstClo ELSE clo
   IN  ovr \cup agg \cup file
         \cup (IF ~fCop /\ ~fLic THEN clo
               ELSE IF fCop /\ ~fLic THEN {it \in cloX : it.kind = "lic"}
               ELSE IF fLic /\ ~fCop THEN {it \in cloX : it.kind = "cop"}
               ELSE {})
MInfoOf(p, f, pinned) == IF Len(p.dep5) > 0 THEN Dep5Items(p, f) \cup FileInfo(f)
                         ELSE MInfoOfToml(p, f, pinned)

(* generation: every case prints the project it denotes *)
Emit == phase = "case" => PrintT(ToJson([own |-> own, dot |-> dot, chain |-> chain, dep5 |-> dep5, p |-> Proj]))

MechanismMeetsRequirement == MInfoOf(Proj, File, FALSE) = InfoOf(Proj, File)        \* M |= R  (C04)
PinnedMeetsRequirement    == MInfoOf(Proj, File, TRUE)  = InfoOf(Proj, File)        \* expected to FAIL (closest[0])
(* consequences of R worth stating on their own *)
DotLicenseShadows == (dot # "absent") => ~\E it \in InfoOf(Proj, File) : it.st = "file-header"
OverrideIsExclusive ==
   (\E i \in 1..Len(Visible(Proj, File)) : Visible(Proj, File)[i].tb.prec = "override")
     => \A it \in InfoOf(Proj, File) : it.st = "reuse-toml"
EveryItemHasASource == \A it \in InfoOf(Proj, File) : it.src # "" /\ it.st \in {"file-header", "dot-license", "reuse-toml", "dep5"}
=================================================================================
