--------------------------------- MODULE Trace_C02 ---------------------------------
(* Trace validation for C02.  One event = one generated tag line (module TagLine)    *)
(* given to the real reader                                                           *)
(*   via "api"   extract_reuse_info(text)      via "lint"  a file read by lint --json *)
(*   via "skip"  annotate --skip-existing on a file holding the line (e.recognised)   *)
(*   e.c        the case (parts of the line)   e.line  the rendered line              *)
(*   e.place    "head" | "beyond" (the line starts after byte 4096)                   *)
(*   e.snippet  the file contains an SPDX snippet marker                              *)
(*   e.poison   another line of the file holds an unparseable licence expression      *)
(*   e.eol      line-ending convention of the file                                    *)
(*   e.obs      values read for the tag's kind (normalised strings), e.err            *)
EXTENDS TagLine, StyleTable, Json, IOUtils, TLCExt
CONSTANT SampleN
Tr == ndJsonDeserialize(IOEnv.TRACE_FILE)
VARIABLE l
SeqSet(s) == {s[i] : i \in 1..Len(s)}

Expected(e) ==
   IF e.poison THEN {}                                            \* an unparseable expression: the file contributes nothing
   ELSE IF e.place = "beyond" /\ ~e.snippet THEN {}               \* only the first 4 KiB are scanned
   ELSE {Denotes(e.c)}
Verdict(e) ==
   IF e.crash # "" THEN "crash"
   ELSE IF e.line # Render(e.c) THEN "harness.rendered-line-differs-from-spec"
   ELSE IF e.via = "skip"                 \* third reader: `annotate --skip-existing` must see what the file already declares
        THEN (IF Expected(e) # {} /\ ~e.recognised THEN "C02.tag-not-recognised" ELSE "")
   ELSE IF SeqSet(e.obs) = Expected(e) THEN ""
   ELSE IF Expected(e) = {} THEN (IF e.poison THEN "C02.unparseable-expression-did-not-silence-the-file" ELSE "C02.tag-beyond-4KiB-read-without-snippet-marker")
   ELSE IF e.obs = <<>> THEN "C02.tag-not-recognised"
   ELSE "C02.value-not-read-exactly"
KnownFinding(e, c) == ""
TInit == l = 1
TNext == /\ l <= Len(Tr)
         /\ LET e == Tr[l]
                c == Verdict(e)
            IN  IF c = "" THEN TRUE ELSE PrintT(<<"REJECT", e.tid, 0, c, KnownFinding(e, c), <<e.line, e.obs, e.via, e.place, e.snippet, e.poison, e.eol>>>>)
         /\ l' = l + 1
=================================================================================
