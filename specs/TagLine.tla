---------------------------------- MODULE TagLine ----------------------------------
(* C02 - licence, copyright and contributor tags are read exactly.                 *)
(*                                                                                 *)
(* A case describes ONE tag line by its parts                                      *)
(*   indent  P (comment prefix of the line)  gapL  TAG  sep  VALUE  trail           *)
(*   [ gapR Reverse(P) ]  (ASCII-art frame)   terminators...   blanks               *)
(* Render(c) is the line; R: the value read is exactly VALUE (Denotes).             *)
(* M (Read): the implementation's reader - first occurrence of the tag, at least    *)
(* one blank, the SHORTEST value such that the rest of the line is a run of known   *)
(* terminators, possibly separated by blanks, followed by blanks,                  *)
(* terminators, strip; then the frame rule: if the value ends with the mirrored     *)
(* prefix, separated from the text by a blank, that suffix is dropped.  Copyright   *)
(* notices are read from the tag itself to the end and get the same frame rule.     *)
EXTENDS Text, FiniteSets, TLC

CONSTANT Terminators      \* set of strings: every style's multi-line closer and the special endings (binding)

TagText == [lic |-> "SPDX-License-Identifier:", con |-> "SPDX-FileContributor:",
            cop |-> "SPDX-FileCopyrightText:", snip |-> "SPDX-SnippetCopyrightText:", word |-> "Copyright", wordc |-> "Copyright (C)",
            \* SIGNSIGN stands for the copyright sign U+00A9 (TLC's JSON reader mangles non-ASCII; the harness writes the real sign)
            sym |-> "SIGNSIGN", wordsym |-> "Copyright SIGNSIGN"]
IsCop(kind) == kind \in {"cop", "snip", "word", "wordc", "sym", "wordsym"}

RECURSIVE Cat(_, _)
Cat(ss, gap) == IF ss = <<>> THEN "" ELSE IF Len(ss) = 1 THEN ss[1] ELSE ss[1] \o gap \o Cat(Tail(ss), gap)
(* (tgap: what stands between two terminators - nothing, or a blank as in a comment nested in another: "... */ -->") *)
Render(c) ==
   c.indent \o c.p \o c.gapL \o TagText[c.tag] \o " " \o c.value \o c.trail
     \o (IF c.frame THEN c.gapR \o Reverse(Strip(c.p)) ELSE "") \o Cat(c.terms, c.tgap) \o c.blanks

(* R *)
Denotes(c) == IF IsCop(c.tag) THEN TagText[c.tag] \o " " \o c.value ELSE c.value

(* M *)
RECURSIVE IsTermRun(_)
IsTermRun(s) == Strip(s) = ""                                  \* trailing blanks may follow the terminators
                \/ \E t \in Terminators : StartsWith(LStrip(s), t) /\ IsTermRun(DropFirst(LStrip(s), Len(t)))    \* blanks may separate them
ShortestBeforeTerms(s) ==        \* lazy (.*?) followed by (?:t1|t2|...)*$
   LET cut == {n \in 0..Len(s) : IsTermRun(DropFirst(s, n))}
   IN  SubSeq(s, 1, CHOOSE n \in cut : \A m \in cut : n <= m)
FrameRule(prefix, value) ==
   LET suf == Reverse(prefix)
   IN  IF suf # "" /\ EndsWith(value, suf) /\ Len(value) > Len(suf)
          /\ IsBlank(SubSeq(value, Len(value) - Len(suf), Len(value) - Len(suf)))
       THEN Strip(DropLast(value, Len(suf))) ELSE value
Read(line, kind) ==
   LET at == IndexOf(line, TagText[kind])
   IN  IF at = 0 THEN "<none>"
       ELSE LET prefix == Strip(SubSeq(line, 1, at - 1))
                rest   == DropFirst(line, at + Len(TagText[kind]) - 1)
            IN  IF rest = "" \/ ~IsBlank(SubSeq(rest, 1, 1)) THEN "<none>"
                ELSE LET v == Strip(ShortestBeforeTerms(LStrip(rest)))
                     IN  IF IsCop(kind) THEN FrameRule(prefix, TagText[kind] \o " " \o v)
                         ELSE FrameRule(prefix, v)
=================================================================================
