SPECIFICATION Spec
INVARIANT MechanismMeetsRequirement
INVARIANT Emit
CHECK_DEADLOCK FALSE
