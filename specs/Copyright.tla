--------------------------------- MODULE Copyright ---------------------------------
(* C20 - copyright notices are built and merged without losing holders or years.   *)
(*                                                                                 *)
(* A notice is [pfx, y1, y2, holder]:  pfx one of the ten documented prefix styles,*)
(* y1 = y2 = 0 for "no year", y1 = y2 for one year, y1 < y2 for a range.           *)
(* Non-ASCII characters travel as <U+XXXX> (the copyright sign is <U+00A9>).       *)
(*                                                                                 *)
(* R1  Text(n): the line the documentation promises for a notice; reading a built  *)
(*     notice back yields exactly that line; a statement that already is a notice  *)
(*     is kept verbatim.                                                           *)
(* R2  MergeOK(S, O): O has exactly the holders of S, one line per holder, and its *)
(*     range covers every year stated for that holder in S.                        *)
(* M   MMerge: the implementation's merge (group by statement, most common prefix, *)
(*     min / max of all years).                                                    *)
EXTENDS Integers, Sequences, FiniteSets, TLC

PrefixText ==
   [ spdx |-> "SPDX-FileCopyrightText:",
     spdx_c |-> "SPDX-FileCopyrightText: (C)",
     spdx_symbol |-> "SPDX-FileCopyrightText: <U+00A9>",
     spdx_string |-> "SPDX-FileCopyrightText: Copyright",
     spdx_string_c |-> "SPDX-FileCopyrightText: Copyright (C)",
     spdx_string_symbol |-> "SPDX-FileCopyrightText: Copyright <U+00A9>",
     string |-> "Copyright",
     string_c |-> "Copyright (C)",
     string_symbol |-> "Copyright <U+00A9>",
     symbol |-> "<U+00A9>" ]
Prefixes == DOMAIN PrefixText

YearText(n) == IF n.y1 = 0 THEN ""
               ELSE IF n.y1 = n.y2 THEN ToString(n.y1)
               ELSE ToString(n.y1) \o " - " \o ToString(n.y2)
Text(n) == PrefixText[n.pfx] \o (IF n.y1 = 0 THEN "" ELSE " " \o YearText(n)) \o " " \o n.holder      \* R1

Holders(S) == {n.holder : n \in S}
YearsOf(S, h) == UNION {{n.y1, n.y2} : n \in {n \in S : n.holder = h /\ n.y1 # 0}}
MergeOK(S, O) ==
   IF Holders(O) # Holders(S) THEN "C20.merge-holder-lost-or-invented"
   ELSE IF \E h \in Holders(S) : Cardinality({n \in O : n.holder = h}) # 1 THEN "C20.merge-more-than-one-line-per-holder"
   ELSE IF \E h \in Holders(S) : \E n \in O : n.holder = h /\ YearsOf(S, h) # {} /\
              (n.y1 = 0 \/ \E y \in YearsOf(S, h) : y < n.y1 \/ y > n.y2)
        THEN "C20.merge-year-range-does-not-cover-all-years"
   ELSE ""

(* M: merge_copyright_lines.  The "most common prefix" may be any of the tied ones  *)
(* (Counter.most_common over a set's iteration order): MMergeAll is the set of      *)
(* results the mechanism can produce.                                              *)
Count(S, h, p) == Cardinality({n \in S : n.holder = h /\ n.pfx = p})
MostCommon(S, h) == {p \in Prefixes : Count(S, h, p) > 0 /\ \A q \in Prefixes : Count(S, h, q) <= Count(S, h, p)}
Min(T) == CHOOSE x \in T : \A y \in T : x <= y
Max(T) == CHOOSE x \in T : \A y \in T : y <= x
MMergeOne(S, h, p) == [pfx |-> p, holder |-> h,
                       y1 |-> IF YearsOf(S, h) = {} THEN 0 ELSE Min(YearsOf(S, h)),
                       y2 |-> IF YearsOf(S, h) = {} THEN 0 ELSE Max(YearsOf(S, h))]
MMergeAll(S) ==
   LET hs == Holders(S)
       choices == [hs -> Prefixes]
   IN  {{MMergeOne(S, h, c[h]) : h \in hs} : c \in {c \in choices : \A h \in hs : c[h] \in MostCommon(S, h)}}
=================================================================================
