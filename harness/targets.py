"""Replay of the decision table of Targets.tla (where `reuse annotate` puts the header of one file, and what becomes of
the rest of the invocation) on the real tool: TLC prints every cell with the outcome M assigns to it; each is built for
real - the target next to an ordinary second file, link targets outside the project - and Trace_Targets compares what
happened with the cell (and with the rules R again).  Used as a stage by C07, C11 and C15 (each listens to its clauses)."""
from __future__ import annotations

import hashlib
import json
import os
import shutil
from pathlib import Path

import core

BIN = b"\x89PNG\r\x1a\x00\x00\x00IHDR" + bytes(x for x in range(256) if x != 10) + b"\xff\xfe\x00tail"     # binary for binaryornot too
NAMES = {"text-comm": ("t.py", b"value = 1\n"), "text-uncomm": ("t.json", b'{"a": 1}\n'), "text-unrec": ("t.unknownext", b"some text\n"),
         "bin-comm": ("t.c", BIN), "bin-unrec": ("t.rawbin", BIN)}
MODE = {"none": [], "force": ["--force-dot-license"], "fallback": ["--fallback-dot-license"], "skipu": ["--skip-unrecognised"]}


def _snap(top: Path) -> dict:
    out = {}
    for x in sorted(top.rglob("*")):
        rel = x.relative_to(top).as_posix()
        if x.is_symlink():
            out[rel] = "link:" + os.readlink(x)
        elif x.is_dir():
            out[rel] = "dir"
        else:
            out[rel] = hashlib.sha1(x.read_bytes()).hexdigest()
    return out


def run_cell(case: dict) -> dict:
    c = case["c"]
    d = core.scratch_dir("tg-")
    try:
        root, outside = d / "root", d / "outside"
        root.mkdir()
        outside.mkdir()
        (outside / "sib.txt").write_text("SPDX-FileCopyrightText: 2001 Somebody Outside\n")
        name, data = NAMES[c["kind"]]
        (root / name).write_bytes(data)
        (root / "good.py").write_text("other = 2\n")
        sib = root / (name + ".license")
        if c["sib"] == "file":
            sib.write_text("SPDX-FileCopyrightText: 2001 Old Sibling\n")
        elif c["sib"] == "dir":
            sib.mkdir()
        elif c["sib"] == "link":
            os.symlink("../outside/sib.txt", sib)
        elif c["sib"] == "dangling":
            os.symlink("../outside/missing.txt", sib)
        before_root, before_out = _snap(root), _snap(outside)
        args = ["--root", str(root), "annotate", "--copyright", "New Holder", "--license", "MIT", "--year", "2024", *MODE[c["mode"]],
                *(["--style", "python"] if c["style"] else [])]
        files = [str(root / name), str(root / "good.py")]
        if case["tid"] % 2:
            files.reverse()
        r = core.run_reuse([*args, *files])
        after_root, after_out = _snap(root), _snap(outside)
        target_changed = before_root.get(name) != after_root.get(name)
        s0, s1 = before_root.get(name + ".license"), after_root.get(name + ".license")
        sib_changed = s0 != s1 and s1 is not None and not s1.startswith(("link:", "dir"))
        where = "both" if target_changed and sib_changed else "infile" if target_changed else "sibling" if sib_changed else "none"
        return {"tid": case["tid"], "label": json.dumps(c, sort_keys=True), "c": c, "exit": r["exit"], "crash": (r["exc"] or "")[-300:],
                "where": where, "other": "annotated" if (before_root["good.py"] != after_root.get("good.py") or "good.py.license" in after_root) else "untouched",
                "outside": before_out != after_out, "modelExit": case["exit"], "out": (r["out"] + r["err"])[-200:]}
    finally:
        shutil.rmtree(d, ignore_errors=True)


def stage(ctx: core.Ctx, prefixes: tuple, tid0: int = 700000) -> dict:
    mc = ctx.mc("Targets", "MC_Targets.cfg")
    viol = [{"clause": f"model:{v}", "kf": "", "detail": mc["out"][-2000:]} for v in mc["violated"]]
    cells = [json.loads(core.parse_value(ln)) for ln in mc["out"].splitlines() if ln.startswith('"{')]
    uniq = {json.dumps(x["c"], sort_keys=True): x for x in cells}
    if len(uniq) < 100:
        raise core.MachineryError("TLC printed too few cells of Targets.tla:\n" + mc["out"][-800:])
    cases = [{"tid": tid0 + i, "c": x["c"], "exit": x["exit"]} for i, (k, x) in enumerate(sorted(uniq.items()))]
    events = ctx.pmap(run_cell, cases, chunksize=8)
    before = len(ctx.rejects)
    ctx.validate("Trace_Targets", "Trace_Targets.cfg", events)
    mine = [r for r in ctx.rejects[before:] if str(r.get("clause", "")).startswith(tuple(prefixes))]
    foreign = len(ctx.rejects) - before - len(mine)
    ctx.rejects[before:] = mine
    ctx.notes["targets_table"] = {"cells": len(cases), "rejections_by_other_properties_clauses": foreign,
                                  "outcomes": {k: sum(1 for e in events if (e["where"], e["exit"]) == k2) for k, k2 in
                                               (("infile", ("infile", 0)), ("sibling", ("sibling", 0)), ("skipped", ("none", 0)),
                                                ("file-error", ("none", 1)), ("usage-error", ("none", 2)))}}
    return {"events": events, "mc_violations": viol}
