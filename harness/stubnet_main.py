"""`python stubnet_main.py <reuse arguments>`: the reuse command line in a fresh interpreter (so that locale, hash seed and
working directory are the process's own), with the network replaced by the same scripted stub the in-process runs use.
REUSE_VERIF_NET = JSON {identifier: "ok" | "http" | "conn"}; REUSE_VERIF_NETLOG = file that receives one identifier per request."""
import json
import os
import sys
import urllib.error
import urllib.request

sys.path.insert(0, os.path.dirname(os.path.abspath(__file__)))
NET = json.loads(os.environ.get("REUSE_VERIF_NET", "{}"))
LOG = os.environ.get("REUSE_VERIF_NETLOG")


def _fake(url, *a, **k):
    from props.c19 import scripted
    u = url if isinstance(url, str) else url.full_url
    name = u.rsplit("/", 1)[-1]
    ident = name[:-4] if name.endswith(".txt") else name
    if LOG:
        with open(LOG, "a", encoding="utf-8") as fh:
            fh.write(ident + "\n")
    return scripted(ident, NET.get(ident, "http"), u)


urllib.request.urlopen = _fake
_default = sys.excepthook


def _hook(tp, val, tb):
    sys.stderr.write("REUSE-VERIF-UNHANDLED-EXCEPTION\n")
    _default(tp, val, tb)


sys.excepthook = _hook
from reuse.cli.main import main  # noqa: E402

sys.argv = ["reuse", *sys.argv[1:]]
main()
