"""Replay of ConvertTable.tla (the preconditions of `reuse convert-dep5`) on the real tool.  Stage of C15, C16, C17."""
from __future__ import annotations

import hashlib
import json
import os
import shutil
from pathlib import Path

import core

DEP5 = ("Format: https://www.debian.org/doc/packaging-manuals/copyright-format/1.0/\nUpstream-Name: p\n\n"
        "Files: src/*\nCopyright: 2020 Jane Doe\nLicense: MIT\n")
TOML = 'version = 1\n\n[[annotations]]\npath = "docs/**"\nSPDX-FileCopyrightText = "2021 Toml Owner"\nSPDX-License-Identifier = "MIT"\n'


def _snap(top: Path) -> dict:
    out = {}
    for x in sorted(top.rglob("*")):
        rel = x.relative_to(top).as_posix()
        out[rel] = "link:" + os.readlink(x) if x.is_symlink() else "dir" if x.is_dir() else hashlib.sha1(x.read_bytes()).hexdigest()
    return out


def run_cell(case: dict) -> dict:
    c = case["c"]
    d = core.scratch_dir("cvt-")
    try:
        root, outside = d / "root", d / "outside"
        (root / "src").mkdir(parents=True)
        (root / "docs").mkdir()
        (root / ".reuse").mkdir()
        outside.mkdir()
        (root / "src" / "a.py").write_text("a = 1\n")
        (root / "docs" / "r.md").write_text("# r\n")
        (outside / "debian-copyright").write_text(DEP5)
        (outside / "shared.toml").write_text(TOML)
        dep5 = root / ".reuse" / "dep5"
        {"absent": lambda: None, "file": lambda: dep5.write_text(DEP5), "link": lambda: os.symlink("../../outside/debian-copyright", dep5),
         "dangling": lambda: os.symlink("../../outside/nothing", dep5), "dir": lambda: dep5.mkdir(),
         "invalid": lambda: dep5.write_text("Format: x\n\nFiles: *\nCopyright 2020 no colon\n  License MIT\n\n\nFiles:\n"),
         "not-utf8": lambda: dep5.write_bytes(DEP5.encode() + b"Comment: caf\xe9 \xff\n")}[c["dep5"]]()
        toml = root / "REUSE.toml"
        {"absent": lambda: None, "file": lambda: toml.write_text(TOML), "dir": lambda: toml.mkdir(),
         "link": lambda: os.symlink("../outside/shared.toml", toml), "dangling": lambda: os.symlink("../outside/no-such.toml", toml),
         "nested": lambda: (root / "docs" / "REUSE.toml").write_text(TOML.replace("docs/**", "**"))}[c["toml"]]()
        b_root, b_out = _snap(root), _snap(outside)
        r = core.run_reuse(["--root", str(root), "convert-dep5"], cwd=d if case["tid"] % 2 else root)
        a_root, a_out = _snap(root), _snap(outside)
        changed = {k for k in set(b_root) | set(a_root) if b_root.get(k) != a_root.get(k)}
        return {"tid": case["tid"], "label": json.dumps(c, sort_keys=True), "c": c, "exit": r["exit"], "crash": (r["exc"] or "")[-300:],
                "rootChanged": bool(changed), "outside": b_out != a_out,
                "tomlIsFile": toml.is_file() and not toml.is_symlink(), "dep5Gone": not os.path.lexists(dep5),
                "otherChanged": bool(changed - {".reuse/dep5", "REUSE.toml"}), "out": (r["out"] + r["err"])[-200:]}
    finally:
        shutil.rmtree(d, ignore_errors=True)


def stage(ctx: core.Ctx, prefixes: tuple, tid0: int = 860000) -> dict:
    mc = ctx.mc("ConvertTable", "MC_ConvertTable.cfg")
    viol = [{"clause": f"model:{v}", "kf": "", "detail": mc["out"][-2000:]} for v in mc["violated"]]
    cells = {json.dumps(x["c"], sort_keys=True): x for x in
             (json.loads(core.parse_value(ln)) for ln in mc["out"].splitlines() if ln.startswith('"{'))}
    if len(cells) < 40:
        raise core.MachineryError("TLC printed too few cells of ConvertTable.tla:\n" + mc["out"][-800:])
    cases = [{"tid": tid0 + i, "c": x["c"]} for i, (k, x) in enumerate(sorted(cells.items()))]
    events = ctx.pmap(run_cell, cases, chunksize=4)
    before = len(ctx.rejects)
    ctx.validate("Trace_ConvertTable", "Trace_ConvertTable.cfg", events)
    mine = [r for r in ctx.rejects[before:] if str(r.get("clause", "")).startswith(tuple(prefixes))]
    ctx.rejects[before:] = mine
    ctx.notes["convert_dep5_precondition_table"] = {"cells": len(cells), "converted": sum(1 for e in events if e["exit"] == 0),
                                                    "refused": sum(1 for e in events if e["exit"] == 2)}
    return {"events": events, "mc_violations": viol}
