"""Core of the verification harness: TLC driver, trace validation, evidence, verdicts.

Roles (see DESIGN.md section 2): TLC model-checks the mechanism model against the
requirement (mc), TLC enumerates abstract cases (gen), Python concretises / runs the real
code / projects observations (replay), TLC judges every recorded event with the
requirement operators (validate).  Python never decides a verdict.
"""
from __future__ import annotations

import atexit
import hashlib
import json
import multiprocessing as mp
import os
import re
import shutil
import subprocess
import sys
import tempfile
import time
from concurrent.futures import ThreadPoolExecutor
from pathlib import Path

VERIF = Path(__file__).resolve().parent.parent
SPECS = VERIF / "specs"
REPO = Path(os.environ.get("REUSE_VERIF_REPO", "/repo"))
NCPU = int(os.environ.get("VERIF_JOBS", "0")) or os.cpu_count() or 4

# The implementation under test is always imported from the repository's working tree.
sys.path.insert(0, str(REPO / "src"))
os.environ.setdefault("LC_ALL", "C")
os.environ["LANGUAGE"] = ""
os.environ.setdefault("PYTHONHASHSEED", "0")

from tlaparse import parse_dump, parse_value, to_py  # noqa: E402


class MachineryError(RuntimeError):
    """Failure of the verification machinery itself (exit status 2)."""


# --------------------------------------------------------------------------------------
# context


class Ctx:
    def __init__(self, prop: str, tier: str, seed: int):
        self.prop = prop
        self.tier = tier
        self.seed = seed
        self.t0 = time.time()
        base = "/dev/shm" if os.path.isdir("/dev/shm") and os.access("/dev/shm", os.W_OK) else None
        self.scratch = Path(tempfile.mkdtemp(prefix=f"verif-{prop}-", dir=base))
        atexit.register(shutil.rmtree, str(self.scratch), True)
        self.specdir = self.scratch / "specs"
        shutil.copytree(SPECS, self.specdir)
        self.cov: dict = {}
        self.mc_states = 0
        self.mc_transitions = 0
        self.mc_runs: list = []
        self.events_validated = 0
        self.behaviours_validated = 0
        self.rejects: list = []
        self.samples: list = []
        self.assumptions: list = []
        self.notes: dict = {}
        self.exhaustive = False
        self.replaying = False
        self._case_of: dict = {}        # tid -> (runner "module:function", case)  - what a replay file needs to re-run one case
        self._trace_of: dict = {}       # tid -> (trace module, cfg, group_key)

    def pmap(self, fn, cases: list, **kw) -> list:
        """core.pmap that also remembers, per case id ('tid'), how to run the case again (for replay files)."""
        runner = f"{fn.__module__}:{fn.__name__}"
        for c in cases:
            if isinstance(c, dict) and "tid" in c:
                self._case_of[c["tid"]] = None if c["tid"] in self._case_of else (runner, c)
        return pmap(fn, cases, **kw)

    @property
    def quick(self) -> bool:
        return self.tier == "quick"

    def log(self, *a):
        print(f"[{self.prop} {time.time() - self.t0:6.1f}s]", *a, flush=True)

    # ---------------------------------------------------------------- binding modules
    def write_module(self, name: str, body: str):
        """Write a generated (binding) module next to the copied specs."""
        (self.specdir / f"{name}.tla").write_text(body)

    def cfg_with(self, cfg: str, suffix: str, **consts) -> str:
        """Derive a cfg with some CONSTANTS replaced (values given as TLA+ text)."""
        lines = (self.specdir / cfg).read_text().splitlines()
        out = []
        seen = set()
        for ln in lines:
            m = re.match(r"^(\s*)(\w+)\s*(=|<-)\s*.*$", ln)
            if m and m.group(2) in consts:
                val = str(consts[m.group(2)])
                op = "<-" if re.fullmatch(r"[A-Za-z_]\w*", val) and val not in ("TRUE", "FALSE") else "="
                out.append(f"{m.group(1)}{m.group(2)} {op} {val}")
                seen.add(m.group(2))
            else:
                out.append(ln)
        missing = sorted(set(consts) - seen)
        if missing:        # not mentioned in the cfg: a definition of the module that this run substitutes (D <- DAlt)
            extra = []
            for k in missing:
                val = str(consts[k])
                if not (re.fullmatch(r"[A-Za-z_]\w*", val) and val not in ("TRUE", "FALSE")):
                    raise MachineryError(f"cfg {cfg} has no constant {k}")
                extra.append(f"  {k} <- {val}")
            idx = next((i for i, ln in enumerate(out) if ln.strip().startswith("CONSTANT")), None)
            if idx is None:
                out = ["CONSTANTS", *extra, *out]
            else:
                out[idx + 1:idx + 1] = extra
        name = cfg.replace(".cfg", f"__{suffix}.cfg")
        (self.specdir / name).write_text("\n".join(out) + "\n")
        return name

    # ---------------------------------------------------------------- TLC
    def tlc(self, module: str, cfg: str, *, workers: int | None = None, dump: bool = False,
            env: dict | None = None, extra: list | None = None, timeout: int = 1800,
            simulate: str | None = None, tag: str | None = None, check: bool = True,
            heap: str | None = None) -> dict:
        tag = tag or cfg.replace(".cfg", "")
        meta = self.scratch / f"meta-{tag}"
        if meta.exists():
            shutil.rmtree(meta)
        jtmp = self.scratch / "jtmp"           # TLC leaves an empty tlc-<n> directory per run in java.io.tmpdir
        jtmp.mkdir(exist_ok=True)
        cmd = ["java", "-XX:+UseParallelGC", f"-Djava.io.tmpdir={jtmp}"]
        if heap:
            cmd.append(f"-Xmx{heap}")
        cmd += ["-cp", "/opt/veriftools/tla/tla2tools.jar:/opt/veriftools/tla/CommunityModules-deps.jar",
                "tlc2.TLC", "-workers", str(workers or NCPU), "-metadir", str(meta),
                "-noGenerateSpecTE", "-config", cfg,
                # without a fixed fingerprint polynomial TLC draws one per run, and RandomElement (re-seeded from state
                # fingerprints) then samples differently under the same -seed: fix it so that VERIF_SEED decides
                "-fp", str(self.seed % 127)]
        dumpfile = None
        if dump:
            dumpfile = self.scratch / f"dump-{tag}"
            cmd += ["-dump", str(dumpfile)]
        if simulate:
            cmd += ["-simulate", simulate]
        if extra:
            cmd += extra
        cmd.append(module)
        e = dict(os.environ)
        if env:
            e.update({k: str(v) for k, v in env.items()})
        t0 = time.time()
        try:
            p = subprocess.run(cmd, cwd=self.specdir, env=e, capture_output=True, text=True, timeout=timeout)
        except subprocess.TimeoutExpired as exc:
            raise MachineryError(f"TLC timeout on {module}/{cfg}") from exc
        out = p.stdout + p.stderr
        res = {"rc": p.returncode, "out": out, "wall": time.time() - t0, "module": module, "cfg": cfg}
        m = re.search(r"(\d+) states generated, (\d+) distinct states found", out)
        if m:
            res["generated"] = int(m.group(1))
            res["distinct"] = int(m.group(2))
        m = re.search(r"The depth of the complete state graph search is (\d+)", out)
        if m:
            res["depth"] = int(m.group(1))
        res["violated"] = re.findall(r"Invariant (\w+) is violated", out) + \
            re.findall(r"Action property (\w+) is violated", out) + \
            (["<temporal>"] if "Temporal properties were violated" in out else [])
        res["prints"] = [ln for ln in out.splitlines() if ln.startswith("<<") or ln.startswith('"')]
        if dumpfile is not None:
            f = Path(str(dumpfile) + ".dump")
            res["dumpfile"] = f if f.exists() else None
        shutil.rmtree(meta, ignore_errors=True)
        if check and p.returncode != 0 and not res["violated"]:
            tail = "\n".join(out.splitlines()[-40:])
            raise MachineryError(f"TLC failed rc={p.returncode} on {module}/{cfg}:\n{tail}")
        return res

    def mc(self, module: str, cfg: str, **kw) -> dict:
        """Model-check: every invariant of cfg must hold (M |= R).  Accumulates counts."""
        r = self.tlc(module, cfg, **kw)
        if "distinct" not in r:
            raise MachineryError(f"TLC produced no state counts for {module}/{cfg}:\n{r['out'][-2000:]}")
        self.mc_states += r["distinct"]
        self.mc_transitions += r["generated"]
        self.mc_runs.append({"module": module, "cfg": cfg, "distinct": r["distinct"],
                             "generated": r["generated"], "depth": r.get("depth"),
                             "violated": r["violated"], "wall_s": round(r["wall"], 2)})
        self.log(f"mc {module}/{cfg}: {r['distinct']} distinct / {r['generated']} generated, "
                 f"violated={r['violated']} ({r['wall']:.1f}s)")
        return r

    def gen(self, module: str, cfg: str, **kw) -> list:
        """Enumerate abstract cases: all reachable states of cfg, as python dicts."""
        r = self.tlc(module, cfg, dump=True, **kw)
        if not r.get("dumpfile"):
            raise MachineryError(f"no dump from {module}/{cfg}:\n{r['out'][-2000:]}")
        states = [to_py_state(s) for s in parse_dump(r["dumpfile"].read_text())]
        states.sort(key=lambda c: json.dumps(c, sort_keys=True, default=str))
        r["dumpfile"].unlink()
        self.mc_states += r.get("distinct", 0)
        self.mc_transitions += r.get("generated", 0)
        self.mc_runs.append({"module": module, "cfg": cfg, "distinct": r.get("distinct"),
                             "generated": r.get("generated"), "role": "gen", "wall_s": round(r["wall"], 2)})
        self.log(f"gen {module}/{cfg}: {len(states)} cases ({r['wall']:.1f}s)")
        return states

    def gen_json(self, module: str, cfg: str, **kw) -> list:
        """Enumerate abstract cases that the spec prints itself as JSON
        (an always-true 'invariant' Emit == ... => PrintT(ToJson(case)))."""
        r = self.tlc(module, cfg, **kw)
        cases = []
        for ln in r["out"].splitlines():
            if ln.startswith('"{') or ln.startswith('"['):
                cases.append(json.loads(parse_value(ln)))
        self.mc_states += r.get("distinct", 0)
        self.mc_transitions += r.get("generated", 0)
        self.mc_runs.append({"module": module, "cfg": cfg, "distinct": r.get("distinct"),
                             "generated": r.get("generated"), "role": "gen", "wall_s": round(r["wall"], 2)})
        if r["violated"]:
            raise MachineryError(f"generator {module}/{cfg} violated {r['violated']}")
        # TLC's workers print in an order that differs from run to run: canonical order, so that the seed a case gets
        # (and with it names, contents, sampled subsets) is a function of VERIF_SEED alone
        cases.sort(key=lambda c: json.dumps(c, sort_keys=True))
        self.log(f"gen {module}/{cfg}: {len(cases)} cases ({r['wall']:.1f}s)")
        return cases

    # ---------------------------------------------------------------- trace validation
    def validate(self, module: str, cfg: str, events: list, *, shards: int | None = None,
                 group_key: str | None = None, env: dict | None = None, timeout: int = 3600) -> list:
        """Validate recorded events with TLC.  Each event is a JSON object with at least
        'tid'.  Events sharing `group_key` (default: none) stay in one shard, in order.
        Returns the list of rejections [{tid, k, clause, kf, event}]."""
        if not events:
            return []
        n = len(events)
        shards = shards or max(1, min(NCPU, n // 400 + 1))
        # partition
        parts: list[list] = [[] for _ in range(shards)]
        if group_key is None:
            for i, e in enumerate(events):
                parts[i * shards // n].append(e)
        else:
            groups: dict = {}
            for e in events:
                groups.setdefault(e[group_key], []).append(e)
            for gi, (_, g) in enumerate(groups.items()):
                parts[gi % shards].extend(g)
        parts = [p for p in parts if p]
        by_tid = {}
        for e in events:
            by_tid.setdefault(e["tid"], []).append(e)
            self._trace_of[e["tid"]] = (module, cfg, group_key)

        def one(idx_part):
            idx, part = idx_part
            f = self.scratch / f"trace-{module}-{idx}.ndjson"
            with open(f, "w") as fh:
                for e in part:
                    fh.write(json.dumps(e, ensure_ascii=True, separators=(",", ":")) + "\n")
            ev = {"TRACE_FILE": str(f)}
            if env:
                ev.update(env)
            r = self.tlc(module, cfg, workers=1, env=ev, tag=f"{module}-{idx}", timeout=timeout,
                         heap="3g", check=False)
            f.unlink()
            ok = r["rc"] == 0 and r.get("distinct") == len(part) + 1
            if not ok:
                tail = "\n".join(r["out"].splitlines()[-30:])
                raise MachineryError(f"trace validation did not consume the whole trace "
                                     f"({module} shard {idx}, {len(part)} events, rc={r['rc']}, "
                                     f"distinct={r.get('distinct')}):\n{tail}")
            rej = []
            for v in printed_tuples(r["out"], "REJECT"):
                rej.append({"tid": v[1], "k": v[2], "clause": v[3], "kf": v[4],
                            "detail": v[5] if len(v) > 5 else None})
            return rej, r["wall"]

        t0 = time.time()
        rejects = []
        with ThreadPoolExecutor(max_workers=min(len(parts), NCPU)) as ex:
            for rej, _ in ex.map(one, enumerate(parts)):
                rejects.extend(rej)
        for r in rejects:
            evs = by_tid.get(r["tid"], [])
            r["event"] = next((e for e in evs if e.get("k", 0) == r["k"]), evs[0] if evs else None)
        self.events_validated += n
        self.behaviours_validated += len(by_tid)
        self.rejects.extend(rejects)
        self.log(f"validate {module}: {n} events / {len(by_tid)} behaviours in {len(parts)} shards, "
                 f"{len(rejects)} rejected ({time.time() - t0:.1f}s)")
        return rejects

    # ---------------------------------------------------------------- verdict + evidence
    def finish(self, *, evaluations: int, distinct_nontrivial: int, rule: str,
               mc_violations: list | None = None, extra: dict | None = None,
               only_prefixes: tuple | None = None) -> int:
        """only_prefixes: clause-name prefixes that belong to this property; rejections by clauses of a
        sibling property (judged by the same trace specification) are counted but not reported here."""
        if only_prefixes:
            mine = [r for r in self.rejects if str(r.get("clause", "")).startswith(tuple(only_prefixes))]
            self.notes["rejections_by_sibling_property_clauses"] = len(self.rejects) - len(mine)
            if os.environ.get("VERIF_SHOW_SIBLING"):          # development aid: what the siblings' clauses said
                for r in self.rejects:
                    if r not in mine:
                        print("SIBLING-CLAUSE", r.get("clause"), json.dumps(r.get("detail"))[:300], flush=True)
            self.rejects = mine
        known = load_known_findings(self.prop)
        open_ids = {k["id"]: k for k in known if k.get("status") == "open"}
        kf_seen: dict = {}
        violations = []
        for r in self.rejects:
            if r["kf"] and r["kf"] in open_ids:
                kf_seen.setdefault(r["kf"], []).append(r)
            else:
                violations.append(r)
        for mv in (mc_violations or []):
            if mv.get("kf") and mv["kf"] in open_ids:
                kf_seen.setdefault(mv["kf"], []).append(mv)
            else:
                violations.append(mv)
        for kid, rs in sorted(kf_seen.items()):
            print(f"KNOWN-FINDING: property={self.prop} {kid}: {open_ids[kid]['what']} "
                  f"[re-observed in {len(rs)} event(s)]", flush=True)
        # group violations by clause for readable output
        shown: dict = {}
        for v in violations:
            shown.setdefault(v.get("clause", "?"), []).append(v)
        rdir = VERIF / "replays" / self.prop
        for clause, vs in sorted(shown.items()):
            for v in vs[:3]:
                rdir.mkdir(parents=True, exist_ok=True)
                payload = {"property": self.prop, "clause": clause, "tier": self.tier, "seed": self.seed,
                           "detail": v.get("detail"), "event": v.get("event"), "mc": v.get("mc")}
                rc = self._case_of.get(v.get("tid"))
                if rc:
                    payload["runner"], payload["case"] = rc
                if v.get("tid") in self._trace_of:
                    payload["trace"] = list(self._trace_of[v["tid"]])
                if only_prefixes:
                    payload["only_prefixes"] = list(only_prefixes)
                h = hashlib.sha1(json.dumps(payload, sort_keys=True, default=str).encode()).hexdigest()[:12]
                path = rdir / f"{h}.json"
                path.write_text(json.dumps(payload, indent=1, default=str))
                print(f"VIOLATION property={self.prop} replay={path}", flush=True)
                print(f"  clause={clause} detail={json.dumps(v.get('detail'), default=str)[:300]}", flush=True)
            if len(vs) > 3:
                print(f"  ... and {len(vs) - 3} more rejection(s) of clause {clause}", flush=True)
        cov = {
            "states": self.mc_states,
            "transitions": self.mc_transitions,
            "traces_validated_against_impl": self.behaviours_validated,
            "events_validated": self.events_validated,
            "samples": self.samples[:8] or [{"note": "no samples recorded"}],
            "evaluations": evaluations,
            "distinct_nontrivial": distinct_nontrivial,
            "rule": rule,
            "exhaustive": self.exhaustive,
            "tlc_runs": self.mc_runs,
            "rejections": len(self.rejects),
            "known_findings_reobserved": {k: len(v) for k, v in kf_seen.items()},
        }
        if extra:
            cov.update(extra)
        cov.update(self.notes)
        ev = {
            "property_id": self.prop,
            "tier": self.tier,
            "seed": self.seed,
            "level": "model_checking",
            "coverage": cov,
            "assumptions": self.assumptions,
            "wall_s": round(time.time() - self.t0, 2),
            "violations": len(violations),
        }
        if not self.replaying:
            (VERIF / "evidence").mkdir(exist_ok=True)
            (VERIF / "evidence" / f"{self.prop}.json").write_text(json.dumps(ev, indent=1, default=str) + "\n")
        self.log(f"done: {evaluations} evaluations, {self.events_validated} events validated, "
                 f"{len(violations)} violation(s), {sum(len(v) for v in kf_seen.values())} known-finding event(s)")
        return 1 if violations else 0


def generic_replay(ctx: "Ctx", path: str) -> int:
    """bin/check <Cxx> --replay FILE for checks without a replay of their own: the recorded case is run again on the
    current tree by the function that ran it in the check (payload 'runner' / 'case'), the resulting events are judged
    by the same trace specification, and the verdict is printed.  Without a recorded case (model-level violations, or
    events assembled from several runs) the recorded event itself is judged again."""
    import importlib
    payload = json.load(open(path))
    ctx.replaying = True
    if payload.get("mc"):
        raise MachineryError("this file records a violation found by TLC in the model, not in the implementation: "
                             "re-run the check; the counterexample is in the 'detail' field")
    trace = payload.get("trace")
    if not trace:
        raise MachineryError("the replay file names no trace specification")
    module, cfg, group_key = trace
    if payload.get("runner") and payload.get("case") is not None:
        modname, fname = payload["runner"].split(":")
        fn = getattr(importlib.import_module(modname), fname)
        out = fn(payload["case"])
        events = out if isinstance(out, list) else [out]
        print(f"re-ran 1 case with {payload['runner']}: {len(events)} event(s)", flush=True)
    else:
        events = [payload["event"]]
        print("no runnable case recorded: judging the recorded event again", flush=True)
    for e in events:
        brief = {k: v for k, v in e.items() if k in ("tid", "k", "label", "exit", "cmd", "crash", "out")}
        print("  event " + json.dumps(brief, default=str)[:600], flush=True)
    ctx.validate(module, cfg, events, group_key=group_key)
    pref = tuple(payload["only_prefixes"]) if payload.get("only_prefixes") else None
    return ctx.finish(evaluations=len(events), distinct_nontrivial=1, rule="replay of one recorded case", only_prefixes=pref)


def printed_tuples(out: str, tag: str) -> list:
    """Values printed by PrintT(<<tag, ...>>); TLC wraps long values over several lines."""
    lines = out.splitlines()
    res = []
    i = 0
    head = re.compile(r'^<<\s*"%s"' % re.escape(tag))
    while i < len(lines):
        if head.match(lines[i]):
            buf = lines[i]
            j = i
            while True:
                try:
                    res.append(to_py(parse_value(buf)))
                    break
                except Exception:  # noqa: BLE001 - incomplete value, take the next line
                    j += 1
                    if j >= len(lines) or j - i > 400:
                        raise MachineryError(f"unparseable PrintT output: {buf[:300]}")
                    buf += "\n" + lines[j]
            i = j + 1
        else:
            i += 1
    return res


def to_py_state(s):
    return {k: to_py(v) for k, v in s.items()}


def load_known_findings(prop: str | None = None) -> list:
    f = VERIF / "known_findings.json"
    if not f.exists():
        return []
    data = json.loads(f.read_text())
    items = data.get("findings", [])
    if prop:
        items = [k for k in items if k.get("property") == prop]
    return items


# --------------------------------------------------------------------------------------
# parallel replay


def pmap(fn, items, *, chunksize: int | None = None, procs: int | None = None, maxtasks: int | None = 2000,
         daemon: bool = True):
    """Run fn over items in forked worker processes (recycled to avoid state leaks).
    daemon=False: workers may start child processes themselves (the tool's own pool)."""
    items = list(items)
    if not items:
        return []
    procs = min(procs or NCPU, len(items))
    if procs <= 1:
        return [fn(x) for x in items]
    ctx = mp.get_context("fork")
    cs = chunksize or max(1, min(200, len(items) // (procs * 4) or 1))
    if not daemon:
        from concurrent.futures import ProcessPoolExecutor
        with ProcessPoolExecutor(max_workers=procs, mp_context=ctx) as ex:
            return list(ex.map(fn, items, chunksize=cs))
    with ctx.Pool(procs, maxtasksperchild=max(1, (maxtasks or 10**9) // cs)) as pool:
        return pool.map(fn, items, chunksize=cs)


# --------------------------------------------------------------------------------------
# running the real CLI in-process


def run_reuse(args: list, cwd: str | os.PathLike | None = None, env: dict | None = None,
              input: str | None = None) -> dict:
    """Invoke `reuse <args>` in-process through click's CliRunner.  Returns exit code,
    stdout, stderr and the escaped exception (repr) if any.  An exception other than
    SystemExit is the 'unhandled exception' of C16."""
    import warnings
    from click.testing import CliRunner
    from reuse.cli.main import main
    import reuse.cli.annotate, reuse.cli.convert_dep5, reuse.cli.download  # noqa: F401,E401
    import reuse.cli.lint, reuse.cli.lint_file, reuse.cli.spdx, reuse.cli.supported_licenses  # noqa: F401,E401

    old = os.getcwd()
    old_env = dict(os.environ)
    if cwd is not None:
        os.chdir(cwd)
    if env:
        os.environ.update(env)
    try:
        with warnings.catch_warnings():
            warnings.simplefilter("ignore")
            try:
                runner = CliRunner(mix_stderr=False)
            except TypeError:
                runner = CliRunner()
            res = runner.invoke(main, [str(a) for a in args], catch_exceptions=True, input=input)
        exc = None
        if res.exception is not None and not isinstance(res.exception, SystemExit):
            import traceback
            exc = "".join(traceback.format_exception(type(res.exception), res.exception,
                                                     res.exception.__traceback__))[-1500:]
        try:
            err = res.stderr
        except (ValueError, AttributeError):
            err = ""
        return {"exit": res.exit_code, "out": res.stdout, "err": err, "exc": exc}
    finally:
        os.chdir(old)
        for k in list(os.environ):
            if k not in old_env:
                del os.environ[k]
        os.environ.update(old_env)


C_LOCALE_ENV = {"LC_ALL": "C", "LANG": "C", "PYTHONUTF8": "0", "PYTHONCOERCECLOCALE": "0"}


def run_reuse_subprocess(args: list, cwd=None, env: dict | None = None, timeout: int = 120, script: str | None = None) -> dict:
    e = dict(os.environ)
    e["PYTHONPATH"] = str(REPO / "src")
    if env:
        e.update(env)
    try:
        script = script or str(Path(__file__).resolve().parent / "realmain.py")
        p = subprocess.run([sys.executable, script, *[str(a) for a in args]], cwd=cwd, env=e,
                           capture_output=True, text=True, encoding="utf-8", errors="replace", timeout=timeout)
    except subprocess.TimeoutExpired:
        # a command that does not terminate is an observation, not a failure of the machinery
        return {"exit": -9, "out": "", "err": "", "exc": f"TIMEOUT: the command did not terminate within {timeout} s"}
    exc = None
    if "REUSE-VERIF-UNHANDLED-EXCEPTION" in p.stderr:       # written by the excepthook of realmain.py / stubnet_main.py
        exc = p.stderr.split("REUSE-VERIF-UNHANDLED-EXCEPTION", 1)[1][-1500:]
    return {"exit": p.returncode, "out": p.stdout, "err": p.stderr, "exc": exc}


def scratch_dir(prefix="case-") -> Path:
    base = "/dev/shm" if os.path.isdir("/dev/shm") else None
    return Path(tempfile.mkdtemp(prefix=prefix, dir=base))
