"""C02 - licence, copyright and contributor tags are read exactly, in any comment syntax.

TLC: TagLine.tla (R = Denotes, M = Read: shortest value before a run of terminators, strip, frame rule)
with the comment-style table and terminator set bound from the code (generated StyleTable.tla);
TagLineGen enumerates / samples cases, M |= R; each rendered line goes to extract_reuse_info and,
inside files (LF / CRLF / CR, before / beyond byte 4096, with / without snippet marker, with / without a
poisoned line), to `reuse lint --json`; Trace_C02 judges."""
from __future__ import annotations

import json
import random
import re
import shutil

import annmodel
import binding
import core

_WS = re.compile(r"[ \t]+")
KIND = {"lic": "lic", "con": "con", "cop": "cop", "snip": "cop", "word": "cop", "wordc": "cop", "sym": "cop", "wordsym": "cop"}
SIGN = "SIGNSIGN"        # the specification's stand-in for the copyright sign


def observe_api(text: str, kind: str) -> tuple:
    from boolean.boolean import ParseError
    from license_expression import ExpressionError
    from reuse.extract import extract_reuse_info
    try:
        info = extract_reuse_info(text)
    except (ExpressionError, ParseError):
        return [], True
    if kind == "lic":
        return sorted(str(x) for x in info.spdx_expressions), False
    if kind == "con":
        return sorted(info.contributor_lines), False
    return sorted(info.copyright_lines), False


def norm_value(g: dict) -> dict:
    """Licence values are compared in the reader's normal form (str of the parsed expression = as written here)."""
    return g


def run_case(case: dict) -> dict:
    g = case["g"]
    c = g["c"]
    kind = KIND[c["tag"]]
    ev = {"tid": case["tid"], "c": c, "line": g["line"], "via": case["via"], "place": case["place"],
          "snippet": case["snippet"], "poison": case["poison"], "eol": case["eol"], "crash": "", "err": False, "bom": bool(case.get("bom"))}
    filler = "filler line that says nothing at all, only here to fill the first four kilobytes\n"
    lines = []
    if case.get("marker_at"):
        # the snippet marker starts at a chosen byte offset (e.g. straddling a multiple of 4096); the tag follows later
        pad = case["marker_at"] - 1
        full, part = divmod(pad, len(filler))
        lines += [filler] * full
        if part:
            lines.append("x" * (part - 1) + "\n")
        lines.append("# SPDX-SnippetBegin\n")
        lines += [filler] * 3
    elif case["place"] == "beyond" and case.get("wide"):
        lines += ["\u6587\u5b57\u5217\u3092\u57cb\u3081\u308b\u884c " * 3 + "\u00e9\u00a9\n"] * 60   # 80 bytes / 28 characters a line: > 4096 bytes, < 1700 characters
    elif case["place"] == "beyond":
        lines += [filler] * 56            # > 4096 bytes
    elif case.get("wide"):
        lines += ["\u6587\u5b57\u5217\u3092\u57cb\u3081\u308b\u884c " * 3 + "\u00e9\u00a9\n"] * 30    # < 4096 bytes: still inside the window
    lines.append(g["line"] + "\n")
    lines.append("some code follows\n")
    if case.get("tail_filler"):           # the tag is at the top of a file that is longer than the 4 KiB window
        lines += [filler] * 60
    if case["snippet"] and not case.get("marker_at"):
        lines.append("# SPDX-SnippetBegin\n")
    if case["poison"]:
        lines.insert(0, "SPDX-License-Identifier: MIT AND AND\n")
    text = "".join(lines).replace("\n", case["eol"]).replace(SIGN, "\u00a9")
    if case.get("bom"):
        text = "\ufeff" + text          # a byte order mark belongs to no line
    if case["via"] == "api":
        obs, err = observe_api(text.replace("\r\n", "\n").replace("\r", "\n"), kind)
        ev["err"] = err
        ev["obs"] = [] if err else [o.replace("\u00a9", SIGN) for o in obs]
        return ev
    data = text.encode("utf-8")
    if case.get("nonascii"):
        # the same line with every 'a' written as a-umlaut (no tag name contains an 'a'), in a file that also holds a byte
        # that is not UTF-8: what is read back is mapped the other way, so a value the reader garbles stays garbled
        data = text.replace("a", "\u00e4").encode("utf-8") + b"stray byte \xff in a later line" + case["eol"].encode()
    d = core.scratch_dir("c02-")
    try:
        if case["via"] == "skip":
            f = d / "f.py"
            f.write_bytes(text.encode("utf-8"))
            before = f.read_bytes()
            r = core.run_reuse(["--root", str(d), "annotate", "--skip-existing", "--copyright", "Someone New", "--license", "0BSD", str(f)])
            if r["exc"]:
                ev["crash"] = r["exc"][-400:]
            ev["obs"] = []
            ev["recognised"] = f.read_bytes() == before and not (d / "f.py.license").exists()
            return ev
        (d / "f.txt").write_bytes(data)
        r = core.run_reuse(["--root", str(d), "--no-multiprocessing", "lint", "--json"])
        if r["exc"] or r["exit"] not in (0, 1):
            ev["crash"] = (r["exc"] or r["err"])[-400:]
            ev["obs"] = []
            return ev
        rep = json.loads(r["out"])
        fr = [f for f in rep["files"] if f["path"] == "f.txt"]
        if not fr:
            ev["obs"] = ["?file-not-listed"]
        elif kind == "lic":
            ev["obs"] = sorted(x["value"] for x in fr[0]["spdx_expressions"])
        elif kind == "cop":
            ev["obs"] = sorted((x["value"].replace("\u00e4", "a") if case.get("nonascii") else x["value"]).replace("\u00a9", SIGN)
                               for x in fr[0]["copyrights"])
        else:
            ev["obs"] = []
        return ev
    finally:
        shutil.rmtree(d, ignore_errors=True)


def run(ctx: core.Ctx) -> int:
    q = ctx.quick
    rnd = random.Random(ctx.seed)
    ctx.assumptions += [
        "values that themselves end in a comment terminator or special ending, or in blank + mirrored prefix without "
        "being framed, are outside the domain (the author's intent is undecidable there)",
        "licence values are written in the reader's normal form (single blanks, upper-case operators)",
        "the copyright sign and other non-ASCII text are exercised by C20 / C07; here values are ASCII",
        "a tag line straddling byte 4096 is not generated; the 4 KiB window is measured in bytes (filler of ASCII and of "
        "multi-byte characters on both sides of it)",
    ]
    ctx.write_module("StyleTable", binding.style_table_module(annmodel.style_table()))
    mc = ctx.mc("TagLineGen", "MC_C02.cfg")
    mc_viol = [{"clause": f"model:{v}", "kf": "", "detail": mc["out"][-2500:]} for v in mc["violated"]]
    gens = ctx.gen_json("TagLineGen", "Gen_C02.cfg")
    ctx.exhaustive = True
    gens_s = ctx.gen_json("TagLineGen", ctx.cfg_with("Sample_C02.cfg", "t", SampleN=4000 if q else 60000), workers=1,
                          extra=["-seed", str(ctx.seed + 2)])
    cases = []
    for i, g in enumerate(gens + gens_s):
        cases.append({"tid": len(cases) + 1, "g": g, "via": "api", "place": "head", "snippet": False, "poison": False,
                      "eol": ["\n", "\r\n", "\r"][i % 3]})
        if i % (5 if q else 2) == 0 and KIND[g["c"]["tag"]] != "con":
            j = i // 5
            place = "beyond" if j % 2 else "head"
            cases.append({"tid": len(cases) + 1, "g": g, "via": "lint", "place": place, "snippet": bool(j % 4 >= 2),
                          "poison": j % 7 == 0, "eol": ["\n", "\r\n", "\r"][j % 3], "wide": j % 3 == 1,
                          "bom": j % 4 == 2 and place == "head" and j % 7 != 0, "tail_filler": place == "head" and j % 4 == 0})
    # copyright values with non-ASCII letters in a file that is not valid UTF-8 throughout
    for gi, g in enumerate([g for g in gens if KIND[g["c"]["tag"]] == "cop"][:: 6 if q else 1]):
        cases.append({"tid": len(cases) + 1, "g": g, "via": "lint", "place": "head", "snippet": bool(gi % 2), "poison": False,
                      "eol": ["\n", "\r\n", "\r"][gi % 3], "nonascii": True})
    # a third reader of the same lines: `annotate --skip-existing` (licence and copyright tags, all line endings)
    for gi, g in enumerate((gens + gens_s)[:: 40 if q else 8]):
        if KIND[g["c"]["tag"]] == "con":
            continue
        cases.append({"tid": len(cases) + 1, "g": g, "via": "skip", "place": "head", "snippet": False, "poison": False,
                      "eol": ["\n", "\r\n", "\r"][gi % 3]})
    # the snippet marker at byte offsets around multiples of the 4 KiB window (LF files; offsets are byte-exact there)
    basic = [g for g in gens if g["c"]["tag"] in ("lic", "cop") and not g["c"]["frame"]][:: max(1, len(gens) // 40)]
    for gi, g in enumerate(basic):
        for k in (1, 2, 3):
            for dlt in (-17, -16, -9, -1, 0, 3):
                cases.append({"tid": len(cases) + 1, "g": g, "via": "lint", "place": "beyond", "snippet": True, "poison": False,
                              "eol": "\n", "marker_at": 4096 * k + dlt + 1})
    events = ctx.pmap(run_case, cases, chunksize=64)
    for ev in events[:: max(1, len(events) // 5)][:5]:
        ctx.samples.append({k: ev[k] for k in ("line", "via", "place", "snippet", "poison", "eol", "obs")})
    ctx.validate("Trace_C02", "Trace_C02.cfg", events)
    for r in ctx.rejects:
        d = r.get("detail")
        if isinstance(d, list):
            r["detail"] = {"line": d[0], "read": d[1], "via": d[2], "place": d[3], "snippet": d[4], "poison": d[5], "eol": d[6]}
    return ctx.finish(
        evaluations=len(events),
        distinct_nontrivial=len({e["line"] for e in events}),
        rule="every comment style (bound from the code) x form {single, inline multi-line, block middle line, bare} x frame "
             "x 6 tag spellings x value classes (incl. values ending in the mirrored prefix) x {none, one special ending} "
             "(complete, TLC) + TLC-sampled cases with indentation, trailing blanks, stacked terminators; API on LF/CRLF/CR "
             "text, and files read by lint placed before / beyond byte 4096, with / without snippet marker and poisoned line; "
             "distinct = distinct rendered lines",
        mc_violations=mc_viol)


def replay(ctx: core.Ctx, path: str) -> int:
    return core.generic_replay(ctx, path)
