"""C15 - commands touch only what they are documented to touch.

TLC: Reuse.tla (the tool over a file system of project + outside sentinel; OutsideFootprintUntouched,
SentinelNeverTouched, ReadersChangeNothing) with Footprint.tla (R); every command sequence up to MaxCmds is
replayed on a real Git work tree with symlinks leaving the project, an ignored file, LICENSES/, .reuse/dep5,
a read-only file; snapshots with metadata around every command; Trace_C15 judges with Footprint.tla."""
from __future__ import annotations

import hashlib
import json
import os
import random
import shutil
import subprocess
import urllib.request
from pathlib import Path

import converttable
import core
import targets
import workflow
import suitetrace
from props import c19

HDR = "# SPDX-FileCopyrightText: 2020 Jane Doe\n# SPDX-License-Identifier: MIT\n"


def snap(top: Path, skip_git: bool = True) -> dict:
    out = {}
    for x in sorted(top.rglob("*")):
        rel = x.relative_to(top).as_posix()
        if skip_git and (rel == ".git" or rel.startswith(".git/")):
            continue
        st = x.lstat()
        if x.is_symlink():
            out[rel] = ("link", os.readlink(x), st.st_mode)
        elif x.is_dir():
            out[rel] = ("dir", st.st_mode)
        else:
            out[rel] = ("file", st.st_size, st.st_mode, st.st_mtime_ns, hashlib.sha1(x.read_bytes()).hexdigest())
    return out


def diff(a: dict, b: dict):
    changed = sorted(p for p in a if p in b and a[p] != b[p] and a[p][0] != "dir")
    # directories count when they appear or disappear (their metadata changes whenever an entry does: not compared)
    created = sorted(p for p in b if p not in a)
    removed = sorted(p for p in a if p not in b)
    return changed, created, removed


def build(d: Path, toml_link: bool = False, dep5_link: bool = False) -> Path:
    root = d / "root"
    sent = d / "sentinel"
    (sent / "dir").mkdir(parents=True)
    (sent / "target.py").write_text("print('outside')\n")
    (sent / "dir" / "x.py").write_text("print('outside dir')\n")
    (root / "src").mkdir(parents=True)
    (root / "docs").mkdir()
    (root / "LICENSES").mkdir()
    (root / ".reuse").mkdir()
    (root / "src" / "a.py").write_text(HDR + "a = 1\n")
    (root / "src" / "b.c").write_text("int b;\n")
    # a covered file whose .license sibling is a symbolic link leaving the project
    (root / "src" / "c.py").write_text("c = 1\n")
    (sent / "sibling_target.txt").write_text("SPDX-FileCopyrightText: 2001 Outside Owner\n")
    os.symlink("../../sentinel/sibling_target.txt", root / "src" / "c.py.license")
    # ... and siblings / licence texts that are DANGLING links: writing through them would create files outside
    (root / "bin2.dat").write_bytes(b"\x00\x01\x02BIN2\xff\xfe" * 4)
    os.symlink("../sentinel/created_through_dangling_sibling.txt", root / "bin2.dat.license")
    (root / "data.unknownext").write_text("no comment style for this one\n")
    os.symlink("../sentinel/created_through_dangling_fallback.txt", root / "data.unknownext.license")
    (root / "bin.dat").write_bytes(b"\x00\x01\x02BIN\xff\xfe" * 4)
    os.symlink("../sentinel/target.py", root / "link.py")
    os.symlink("../sentinel/dir", root / "linkdir")
    (root / "ignored.log").write_text("log\n")
    (root / ".gitignore").write_text("*.log\n")
    (root / "LICENSES" / "MIT.txt").write_text("MIT text\n")
    (root / "LICENSES" / "LicenseRef-custom.txt").write_text("the custom licence, as it was\n")
    os.symlink("../../sentinel/created_through_dangling_licence.txt", root / "LICENSES" / "ISC.txt")
    (root / "src-legacy").mkdir()
    (root / "src-legacy" / "old.py").write_text("old = 1\n")
    (root / "srcgen.py").write_text("gen = 1\n")
    (sent / "sources").mkdir()
    (sent / "sources" / "LicenseRef-custom.txt").write_text("a DIFFERENT text from --source\n")
    (sent / "sources" / "LicenseRef-new.txt").write_text("new custom text\n")
    (root / ".reuse" / "dep5").write_text(
        "Format: https://www.debian.org/doc/packaging-manuals/copyright-format/1.0/\nUpstream-Name: p\n\n"
        "Files: docs/*\nCopyright: 2020 Doc Writer\nLicense: MIT\n")
    if dep5_link:      # the Debian layout: .reuse/dep5 is a symbolic link (here: to a file outside the project)
        (sent / "debian-copyright").write_text((root / ".reuse" / "dep5").read_text())
        (root / ".reuse" / "dep5").unlink()
        os.symlink("../../sentinel/debian-copyright", root / ".reuse" / "dep5")
    (root / "LICENSE").write_text("see LICENSES/\n")
    (root / ".reuse" / "templates").mkdir()
    (root / ".reuse" / "templates" / "house.jinja2").write_text(
        "{% for copyright_line in copyright_lines %}\n{{ copyright_line }}\n{% endfor %}\n\n"
        "{% for expression in spdx_expressions %}\nSPDX-License-Identifier: {{ expression }}\n{% endfor %}\n")
    (root / "docs" / "readme.md").write_text("# readme\n")
    (root / "ro.txt").write_text("read only\n")
    os.chmod(root / "ro.txt", 0o444)
    # a registered Git submodule (skipped by default, from whatever directory the tool is started)
    (root / "vendor-sm" / "pkg").mkdir(parents=True)
    (root / "vendor-sm" / "pkg" / "inner.py").write_text("inner = 1\n")
    (root / ".gitmodules").write_text('[submodule "vendor-sm"]\n\tpath = vendor-sm\n\turl = https://example.com/vendor-sm.git\n')
    # an unrelated file that happens to be called like a scratch copy of another one
    (root / "src" / "a.py.tmp").write_text("not a scratch file: notes that belong to the project\n")
    if toml_link:           # a REUSE.toml that is a symbolic link is not configuration - and not to be written through
        (sent / "precious.txt").write_text("outside content that convert-dep5 must leave alone\n")
        os.symlink("../sentinel/precious.txt", root / "REUSE.toml")
    env = dict(os.environ, GIT_CONFIG_GLOBAL="/dev/null", GIT_CONFIG_SYSTEM="/dev/null", HOME=str(d))
    subprocess.run(["git", "init", "-q"], cwd=root, env=env, check=True, capture_output=True)
    subprocess.run(["git", "add", "-A"], cwd=root, env=env, check=True, capture_output=True)
    return root


def command_line(root: Path, c: dict) -> tuple:
    k = c["kind"]
    base = ["--root", str(root)]
    t = [str(root / x) if x else str(root) for x in c["targets"]]
    if k == "lint":
        return [*base, "--no-multiprocessing", "lint"], root
    if k.startswith("lint-") and k != "lint-file":
        return [*base, "--no-multiprocessing", "lint", "--" + k[5:]], root
    if k == "lint-file":
        return [*base, "--no-multiprocessing", "lint-file", str(root / "src/a.py"), str(root / "docs/readme.md"), str(root / "LICENSE")], root
    if k == "spdx":
        return [*base, "--no-multiprocessing", "spdx"], root
    if k == "spdx-o":
        return [*base, "--no-multiprocessing", "spdx", "-o", str(root / c["out"])], root
    if k == "supported-licenses":
        return ["supported-licenses"], root
    if k == "help":
        return ["--help"], root
    if k == "version":
        return ["--version"], root
    if k == "annotate":
        return [*base, "annotate", "--copyright", "New Owner", "--license", "MIT", "--year", "2024", "--fallback-dot-license", *t], root
    if k == "annotate-r":
        return [*base, "annotate", "--copyright", "New Owner", "--license", "MIT", "--year", "2024", "--fallback-dot-license", "-r", *t], root
    if k == "convert-dep5":
        return [*base, "convert-dep5"], root
    if k == "download":
        return [*base, "download", *c["targets"]], root
    if k == "download-src":
        return [*base, "download", "--source", str(root.parent / "sentinel" / "sources"), *c["targets"]], root
    raise ValueError(k)


def run_case(case: dict) -> list:
    d = core.scratch_dir("c15-")
    real = urllib.request.urlopen
    events = []
    try:
        root = build(d, toml_link=bool(case.get("toml_link")), dep5_link=bool(case.get("dep5_link")))

        def fake(url, *a, **k):
            u = url if isinstance(url, str) else url.full_url
            ident = u.rsplit("/", 1)[-1][:-4]
            return c19._Resp(c19.body_of(ident).encode())
        urllib.request.urlopen = fake
        for k, c in enumerate(case["hist"], 1):
            lr = core.run_reuse(["--root", str(root), "--no-multiprocessing", "lint", "--json"], cwd=root)
            try:
                covered = sorted(f["path"] for f in json.loads(lr["out"])["files"])
            except Exception:  # noqa: BLE001
                covered = []
            symlinks = sorted(x.relative_to(root).as_posix() for x in root.rglob("*") if x.is_symlink())
            (d / "sentinel" / "started-here").mkdir(exist_ok=True)
            # the time stamp of a tracked file changes (its content does not): Git's cached stat information is stale now,
            # and a `git status` that takes optional locks would rewrite .git/index - which belongs to the tree as well
            t = 1_700_000_000_000_000_000 + (case["tid"] * 16 + k) * 1_000_000_000
            os.utime(root / "src" / "b.c", ns=(t, t))
            s0, o0 = snap(root, skip_git=False), snap(d / "sentinel")
            args, cwd = command_line(root, c)
            # every path is given absolutely: the directory the tool is started in must not matter - an unrelated
            # directory (watched: part of the sentinel), or a subdirectory of the project
            if case["tid"] % 3 == 1:
                cwd = d / "sentinel" / "started-here"
                cwd.mkdir(exist_ok=True)
            elif case["tid"] % 3 == 2 and (root / "src").is_dir():
                cwd = root / "src"
            r = core.run_reuse(args, cwd=cwd)
            s1, o1 = snap(root, skip_git=False), snap(d / "sentinel")
            changed, created, removed = diff(s0, s1)
            oc, ocr, orm = diff(o0, o1)
            crash = r["exc"] or ""
            if c["kind"] in ("help", "version", "supported-licenses") and r["exit"] != 0:
                crash = crash or f"exit {r['exit']}"
            events.append({"tid": case["tid"], "k": k, "label": case["label"], "cmd": c, "covered": covered, "symlinks": symlinks,
                           "changed": changed, "created": created, "removed": removed, "sentinel": sorted(oc + ocr + orm),
                           "exit": r["exit"], "crash": crash[-400:]})
        return events
    finally:
        urllib.request.urlopen = real
        os.chmod(d / "root" / "ro.txt", 0o644) if (d / "root" / "ro.txt").exists() else None
        shutil.rmtree(d, ignore_errors=True)


def run(ctx: core.Ctx) -> int:
    q = ctx.quick
    rnd = random.Random(ctx.seed)
    ctx.assumptions += [
        "snapshots compare type, size, mode, mtime, SHA-1 and link target of every path of the project (.git/ included; the cached "
        "stat information of the index is made stale before every command) and of an outside sentinel directory that two symlinks point into",
        "the set of covered files used for the footprint of `annotate -r` is the tool's own lint listing of the state before "
        "the command (its correctness is C03's subject)",
        "download runs against a stub network that always succeeds",
        "for invocations recorded from the repository's tests the covered files are over-approximated by all regular files "
        "(a larger footprint for annotate -r: sound, less sharp); tests that mock the file-writing functions show no effect",
    ]
    mc = ctx.mc("Reuse", "MC_C15.cfg")
    mc_viol = [{"clause": f"model:{v}", "kf": "", "detail": mc["out"][-2000:]} for v in mc["violated"]]
    gens = ctx.gen_json("Reuse", ctx.cfg_with("Gen_C15.cfg", "t", MaxCmds=2))
    hists = [g["hist"] for g in gens]
    ctx.exhaustive = True
    if q:
        ones = [h for h in hists if len(h) == 1]
        twos = [h for h in hists if len(h) == 2 and any(c["kind"] not in ("help", "version", "supported-licenses", "lint-quiet", "lint-lines") for c in h)]
        hists = ones + rnd.sample(twos, min(160, len(twos)))
    else:
        g3 = ctx.gen_json("Reuse", ctx.cfg_with("Gen_C15.cfg", "t3", MaxCmds=3))
        h3 = [g["hist"] for g in g3 if len(g["hist"]) == 3]
        hists += rnd.sample(h3, min(1500, len(h3)))
    cases = [{"tid": i + 1, "hist": h, "label": json.dumps([[c["kind"], c["targets"]] for c in h])} for i, h in enumerate(hists)]
    # the histories with a conversion, once more on a tree whose REUSE.toml is a symbolic link leaving the project
    for h in [h for h in hists if any(c["kind"] == "convert-dep5" for c in h)][: 12 if q else 200]:
        cases.append({"tid": len(cases) + 1, "hist": h, "toml_link": True,
                      "label": json.dumps(["REUSE.toml is a symlink", [[c["kind"], c["targets"]] for c in h]])})
    # ... and once more on a tree whose .reuse/dep5 is a symbolic link to a file outside the project
    for h in [h for h in hists if any(c["kind"] == "convert-dep5" for c in h)][: 12 if q else 200]:
        cases.append({"tid": len(cases) + 1, "hist": h, "dep5_link": True,
                      "label": json.dumps([".reuse/dep5 is a symlink", [[c["kind"], c["targets"]] for c in h]])})
    evl = ctx.pmap(run_case, cases, chunksize=4, daemon=False)
    events = [e for es in evl for e in es]
    for ev in [e for e in events if e["cmd"]["kind"].startswith("annotate")][:3] + events[:1]:
        ctx.samples.append({"cmd": ev["cmd"], "changed": ev["changed"], "created": ev["created"], "removed": ev["removed"],
                            "sentinel": ev["sentinel"], "exit": ev["exit"]})
    # executions the repository's own CLI tests drive, recorded and judged by the same specification
    suite = suitetrace.for_c15(suitetrace.collect(ctx), 100000)
    events += suite
    ctx.validate("Trace_C15", "Trace_C15.cfg", events, group_key="tid")
    for r in ctx.rejects:
        d = r.get("detail")
        if isinstance(d, list):
            r["detail"] = {"history": d[0], "changed": d[1], "created": d[2], "removed": d[3], "sentinel": d[4]}
    # Workflow.tla: which command may change what (declarations, LICENSES/, siblings, where the project-wide declaration lives)
    wf = workflow.stage(ctx, ("C15.", "crash"), tid0=900000)
    mc_viol = list(mc_viol) + wf["mc_violations"]
    # Targets.tla: the decision table of annotate's destinations (FILE.license absent / file / directory / live or dangling link)
    tg = targets.stage(ctx, ("C15.", "crash"), tid0=950000)
    mc_viol += tg["mc_violations"]
    cv = converttable.stage(ctx, ("C15.", "crash"), tid0=960000)
    mc_viol += cv["mc_violations"]
    return ctx.finish(
        evaluations=len(events) + len(wf["events"]) + len(tg["events"]) + len(cv["events"]),
        distinct_nontrivial=len({e["label"] + str(e["k"]) for e in events if e["cmd"]["kind"] not in ("help", "version")}),
        rule="command sequences over {lint x4 formats, lint-file, spdx, spdx -o, supported-licenses, --help, --version, annotate "
             "on files / a binary / a symlink leaving the project, annotate -r on the root / directories / a symlinked "
             "directory, convert-dep5, download}: all of length 1, length 2 (quick: seeded sample), thorough: sampled length 3; "
             "on a Git work tree with outside sentinel, ignored file, LICENSES/, .reuse/dep5, read-only file; plus every CLI "
             "invocation made by the repository's own tests/test_cli_*.py (recorded by a pytest plugin, snapshots around it)",
        mc_violations=mc_viol)


def replay(ctx: core.Ctx, path: str) -> int:
    return core.generic_replay(ctx, path)
