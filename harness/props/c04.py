"""C04 - per-file sources and precedence.

TLC: Precedence.tla enumerates every case (own x .license x REUSE.toml chain / dep5), checks
M |= R on all of them (MInfoOf vs Project!InfoOf) and prints the abstract project of each case;
Trace_Project judges what `reuse lint --json` attributed to the file."""
from __future__ import annotations

import json

import core
import projmodel


def to_case(i, g, seed):
    label = {"own": g["own"], "dot": g["dot"], "dep5": g["dep5"],
             "chain": [[f"{t['prec']}/{t['info']}/{t['glob']}" for t in lvl] for lvl in g["chain"]]}
    return {"tid": i, "p": g["p"], "checks": ["C04"], "label": json.dumps(label), "seed": seed + i}


def nontrivial(g) -> bool:
    return sum(1 for lvl in g["chain"] if lvl) >= 1 or g["dep5"] != "none" or g["dot"] != "absent"


def run(ctx: core.Ctx) -> int:
    q = ctx.quick
    ctx.assumptions += [
        "globs in the tables are '**', the exact relative path, or a non-matching 'zz/**' (forms on which C05 has no finding)",
        "when an override is visible, shallower closest/aggregate tables may still contribute (the statement calls "
        "REUSE.toml 'the only source', which both readings satisfy) - R follows the top-down walk",
        "dep5 paragraphs always carry both Copyright and License (the format requires them)",
    ]
    # 1. M |= R on the complete space
    mc = ctx.mc("Precedence", ctx.cfg_with("MC_C04.cfg", "t", Depth=2 if q else 3))
    mc_viol = [{"clause": f"model:{v}", "kf": "", "detail": mc["out"][-2500:]} for v in mc["violated"]]
    if not q:
        mc2 = ctx.mc("Precedence", ctx.cfg_with("MC_C04.cfg", "t2", Depth=1, MaxTables=2), timeout=7200)   # (Depth 2 with 2 tables per file: 3e7 states, hours)
        mc_viol += [{"clause": f"model:{v}", "kf": "", "detail": mc2["out"][-2500:]} for v in mc2["violated"]]
    # 2. cases (TLC prints the project of every case)
    # replayed on the real tool: the complete depth-2 space; depth 3 is complete at model level (above) and replayed as a
    # large TLC sample (holding all 470 000 depth-3 projects in memory at once exhausted the 62 GB of this machine)
    gens = ctx.gen_json("Precedence", ctx.cfg_with("Gen_C04.cfg", "t", Depth=2))
    ctx.exhaustive = True
    n_s = 1500 if q else 60000
    sample = ctx.gen_json("Precedence", ctx.cfg_with("Sample_C04.cfg", "t", SampleN=n_s), workers=1,
                          extra=["-seed", str(ctx.seed + 11)])
    # the same space with directory names that sort before "REUSE.toml" as strings ('3', 'D'): order of the walk
    alt = ctx.gen_json("Precedence", ctx.cfg_with("Sample_C04.cfg", "alt", SampleN=500 if q else 8000, D1="D1Alt", D2="D2Alt"),
                       workers=1, extra=["-seed", str(ctx.seed + 12)])
    sample += alt
    # ... and with a directory whose name holds a line break
    sample += ctx.gen_json("Precedence", ctx.cfg_with("Sample_C04.cfg", "nl", SampleN=300 if q else 4000, D2="D2Nl"),
                           workers=1, extra=["-seed", str(ctx.seed + 13)])
    cases = [to_case(i + 1, g, ctx.seed) for i, g in enumerate(gens + sample)]
    # 3. replay
    for k_, c_ in enumerate(cases):
        if k_ % 9 == 4 and not c_["p"].get("dep5"):       # (dep5 lives in the root's .reuse/ only)
            c_["under"] = "subprojects/lib"
            c_["label"] = json.dumps({"below-a-Meson-subproject": json.loads(c_["label"])})
    events = ctx.pmap(projmodel.run_project_case, cases, chunksize=16)
    for ev in events[:: max(1, len(events) // 4)][:4]:
        ctx.samples.append({"case": json.loads(ev["label"]), "observed": ev["obs"]["files"]})
    # 4. TLC judges
    ctx.validate("Trace_Project", "Trace_Project.cfg", events)
    for r in ctx.rejects:
        if isinstance(r.get("detail"), str):
            try:
                r["detail"] = json.loads(r["detail"])
            except ValueError:
                pass
        if r.get("event"):
            r["event"] = {"p": r["event"]["p"], "label": r["event"]["label"], "obs_files": r["event"]["obs"]["files"],
                          "crash": r["event"]["obs"]["crash"]}
    return ctx.finish(
        evaluations=len(events),
        distinct_nontrivial=len({e["label"] for e, g in zip(events, gens + sample) if nontrivial(g)}),
        rule="own(6) x .license(5) x chain of REUSE.toml at /, a/, a/b/ (each absent or one table prec(3) x info(4) x "
             "glob(2)) complete to Depth, dep5 variants, plus TLC-sampled (RandomElement, -seed) depth-3 chains with up "
             "to two tables per file; non-trivial = some REUSE.toml/dep5/.license is involved",
        mc_violations=mc_viol,
        extra={"exhaustive_bound": {"model": {"Depth": 2 if q else 3, "MaxTables": 1}, "replayed": {"Depth": 2, "MaxTables": 1}},
               "sampled_cases": len(sample)})


def replay(ctx: core.Ctx, path: str) -> int:
    payload = json.load(open(path))
    ev = payload["event"]
    case = {"tid": 1, "p": ev["p"], "checks": ["C04"], "label": ev.get("label", ""), "seed": ctx.seed}
    e = projmodel.run_project_case(case)
    print(json.dumps(e["obs"]["files"], indent=1))
    ctx.validate("Trace_Project", "Trace_Project.cfg", [e])
    return ctx.finish(evaluations=1, distinct_nontrivial=2, rule="replay of one recorded case")
