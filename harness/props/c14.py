"""C14 - results do not depend on scheduling, enumeration order, hash seed, cwd or root spelling.

TLC: LintPool.tla (all walk orders x chunkings x worker interleavings: ScheduleFree, EachFileOnce,
termination) and, by -simulate, the schedules that the replay pool (schedshim.SchedPool) executes in
real forked workers; Trace_C14 judges equality of all normalised outputs of one tree and validates
recorded executions of the REAL multiprocessing pool against LintPool's rules."""
from __future__ import annotations

import json
import os
import random
import shutil
import tempfile
from pathlib import Path

import core
import projmodel
import roottable
import schedshim
from props import c04, c06, c13

STACKED = ["*/ -->", "*/-->", "-->*/", "*) */", "#}*/", "=#-->", "--%>*/", "}*/", ":)-->", "*#*/", "--}}-->", "*/*)"]


def canon_lint(out: str, root: Path, cwd: Path) -> str:
    rep = json.loads(out)
    nc = rep["non_compliant"]

    def npath(x):
        return c13.norm(x, root, cwd)
    for k in ("missing_licenses", "bad_licenses"):
        nc[k] = {i: sorted(npath(x) for x in v) for i, v in sorted(nc[k].items())}
    nc["licenses_without_extension"] = {i: npath(v) for i, v in sorted(nc["licenses_without_extension"].items())}
    for k in ("missing_copyright_info", "missing_licensing_info", "read_errors"):
        nc[k] = sorted(npath(x) for x in nc[k])
    for k in ("unused_licenses", "deprecated_licenses"):
        nc[k] = sorted(nc[k])
    for f in rep["files"]:
        f["copyrights"] = sorted(f["copyrights"], key=lambda c: json.dumps(c, sort_keys=True))
        f["spdx_expressions"] = sorted(f["spdx_expressions"], key=lambda c: json.dumps(c, sort_keys=True))
    rep["files"] = sorted(rep["files"], key=lambda f: f["path"])
    rep["summary"]["used_licenses"] = sorted(rep["summary"]["used_licenses"])
    return json.dumps(rep, sort_keys=True, ensure_ascii=True)


def canon_spdx(out: str) -> str:
    keep = [ln for ln in out.splitlines() if not ln.startswith(("DocumentNamespace:", "Created:"))]
    return "\n".join(keep).encode("ascii", "backslashreplace").decode()


def one_run(cfg: str, args_pre: list, root: Path, cwd: Path, want_spdx: bool, runner=None, env=None) -> dict:
    run = runner or core.run_reuse
    kw = {"env": env} if env else {}
    r = run([*args_pre, "lint", "--json"], cwd=cwd, **kw)
    res = {"cfg": cfg, "exit": r["exit"], "lint": "", "spdx": "", "crash": ""}
    if r["exit"] == 2 and not r["exc"]:
        # a project the tool refuses (usage error) is a result too: it has to be refused under every setting alike
        msg = [ln for ln in (r["err"] or r["out"] or "").splitlines() if ln.startswith("Error:")]
        res["lint"] = "refused: " + " ".join(msg)[:300].replace(str(root), "<root>")
        return res
    if r["exc"] or r["exit"] not in (0, 1):
        res["crash"] = f"{cfg}: " + (r["exc"] or r["err"] or "")[-400:]
        return res
    res["lint"] = canon_lint(r["out"], root, cwd)
    if want_spdx:
        s = run([*args_pre, "spdx"], cwd=cwd, **kw)
        if s["exc"] or s["exit"] != 0:
            res["crash"] = f"{cfg} spdx: " + (s["exc"] or s["err"] or "")[-400:]
        else:
            res["spdx"] = canon_spdx(s["out"])
    return res


def pool_procs(logdir: Path, parent: int, order: list) -> list:
    procs = []
    oset = set(order)
    for f in sorted(logdir.glob("*.log")):
        if f.stem == str(parent):
            continue
        seq = []
        for ln in f.read_text().splitlines():
            if ln in oset and ln not in seq:
                seq.append(ln)
        if seq:
            procs.append(seq)
    return procs


def run_case(case: dict) -> dict:
    rnd = random.Random(case["seed"])
    d = top = core.scratch_dir("c14-")
    ev = {"tid": case["tid"], "label": case["label"], "crash": "", "runs": [], "pools": []}
    try:
        # where the project lives is a hidden parameter too: some roots sit below a directory called `subprojects`
        home = d / case.get("home", ".")
        home.mkdir(parents=True, exist_ok=True)
        d = home
        root = d / case.get("rootname", "root")     # ... and so is the name of the root directory itself
        p = projmodel.ensure_cls(case["p"])
        if case.get("stacked"):
            for f in p["files"]:
                if f["type"] == "text" and f["own"]["lic"] and rnd.random() < 0.7:
                    f["own"]["lic"][0] = dict(f["own"]["lic"][0])
                    f["_stack"] = rnd.choice(STACKED)
        projmodel.materialise(p, root, rnd, outside=d / "outside")
        for f in p["files"]:
            if f.get("_stack"):
                fp = root.joinpath(*f["path"])
                txt = fp.read_text()
                tag = "SPDX-License-Identifier: " + f["own"]["lic"][0]["text"]
                fp.write_text(txt.replace(tag, tag + " " + f["_stack"], 1) if case["stacked"] == "spaced"
                              else txt.replace(tag, tag + f["_stack"].replace(" ", ""), 1))
        for k in range(case.get("bulk", 0)):
            # more covered files than the machine has processors: every one of them is in the report under every pool size
            (root / "bulk").mkdir(exist_ok=True)
            (root / "bulk" / f"f{k:03}.py").write_text(f"# SPDX-FileCopyrightText: {2000 + k % 20} Bulk Holder {k % 3}\n# SPDX-License-Identifier: 0BSD\n\nk = {k}\n")
        if case.get("ignored_neighbours"):
            # several neighbouring directories that are skipped for a reason other than their name (Meson subprojects):
            # none of them is walked, in whatever order the file system lists them
            for sp in ("alpha", "beta", "gamma", "delta"):
                (root / "subprojects" / sp).mkdir(parents=True, exist_ok=True)
                (root / "subprojects" / sp / f"{sp}.c").write_text(f"int {sp};\n")
        if case.get("dup_license"):
            # two texts for one identifier: the tool refuses such a project - under every enumeration order alike
            (root / "LICENSES").mkdir(exist_ok=True)
            (root / "LICENSES" / "LicenseRef-twice.txt").write_text("first text of LicenseRef-twice\n")
            (root / "LICENSES" / "LicenseRef-twice.md").write_text("# second, different text of LicenseRef-twice\n")
        if case.get("git_submodule"):
            # a Git work tree with a registered submodule: skipped from wherever the tool is started
            import subprocess
            (root / "vendor-sm" / "pkg").mkdir(parents=True)
            (root / "vendor-sm" / "pkg" / "inner.py").write_text("inner = 1\n")
            (root / ".gitmodules").write_text('[submodule "vendor-sm"]\n\tpath = vendor-sm\n\turl = https://example.com/vendor-sm.git\n')
            genv = dict(os.environ, GIT_CONFIG_GLOBAL="/dev/null", GIT_CONFIG_SYSTEM="/dev/null", HOME=str(top))
            subprocess.run(["git", "init", "-q"], cwd=root, env=genv, check=True, capture_output=True)
            subprocess.run(["git", "add", "-A"], cwd=root, env=genv, check=True, capture_output=True)
        sub = next((x for x in sorted(root.iterdir()) if x.is_dir() and x.name not in ("LICENSES", ".reuse", ".git", "vendor-sm")), root)
        base = ["--root", str(root), "--no-multiprocessing"]
        runs = []
        runs.append(one_run("serial|cwd=outside|root=abs", base, root, d, True))
        # directory listing order
        for s in range(case["scandir_seeds"]):
            with schedshim.permuted_scandir(case["seed"] * 10 + s):
                runs.append(one_run(f"serial|scandir-perm={s}", base, root, d, s == 0 or bool(case.get("dup_license"))))
        # root spellings and working directories
        rel_from_sub = os.path.relpath(root, sub)
        spell = [("cwd=root|root=.", ["--root", ".", "--no-multiprocessing"], root),
                 ("cwd=root|no --root", ["--no-multiprocessing"], root),
                 ("cwd=sub|root=rel", ["--root", rel_from_sub, "--no-multiprocessing"], sub),
                 ("cwd=outside|root=rel", ["--root", root.name, "--no-multiprocessing"], d),
                 ("cwd=outside|root=non-normalised", ["--root", str(root / ".." / "." / root.name), "--no-multiprocessing"], d)]
        for i, (name, pre, cwd) in enumerate(spell):
            runs.append(one_run(name, pre, root, Path(cwd), i % 2 == 0))
        # the same contents checked out under another directory name
        if case.get("copyname"):
            twin = d / "twin" / case["copyname"]
            shutil.copytree(root, twin, symlinks=True)
            tw = one_run(f"same contents in a directory called {case['copyname']}|root=abs",
                         ["--root", str(twin), "--no-multiprocessing"], twin, d, True)
            # (the SPDX document is named after the checkout directory by design: a document identifier)
            tw["spdx"] = tw["spdx"].replace(f"DocumentName: {twin.name}\n", f"DocumentName: {root.name}\n", 1)
            runs.append(tw)
            runs.append(one_run(f"same contents in a directory called {case['copyname']}|cwd=root",
                                ["--no-multiprocessing"], twin, twin, False))
        # TLC schedules executed by the replay pool, in real forked workers
        for si, sched in enumerate(case["scheds"]):
            log = []
            with schedshim.pool_as(lambda *a, _s=sched, _l=log, **k: schedshim.SchedPool(_s, _l)):
                runs.append(one_run(f"replay-pool|order={sched['order']}|cs={sched['cs']}|takes={sched['takes']}",
                                    ["--root", str(root)], root, d, si == 0))
        # the real pool with 1..16 workers, recorded
        for nw in case["real_workers"]:
            log = []
            logdir = Path(tempfile.mkdtemp(prefix="audit-", dir=d))
            with schedshim.pool_as(lambda *a, _n=nw, _l=log, _d=str(logdir), **k: schedshim.RecordingPool(_n, _l, _d)):
                rr = one_run(f"real-pool|workers={nw}", ["--root", str(root)], root, d, False)
            if nw == 2:
                with schedshim.pool_as(lambda *a, _n=nw, **k: schedshim.RecordingPool(_n, [])):
                    rr["spdx"] = one_run("x", ["--root", str(root)], root, d, True)["spdx"]
            runs.append(rr)
            for entry in log[:1]:
                if not all(isinstance(x, (str, os.PathLike)) for x in entry["order"]):
                    continue                      # not a pool.map over files: nothing LintPool describes
                ev["pools"].append({"order": [c13.norm(x, root, d) for x in entry["order"]], "cs": entry["cs"],
                                    "procs": [[c13.norm(x, root, d) for x in s]
                                              for s in pool_procs(logdir, entry["parent"], entry["order"])]})
        # string hash seeds need fresh interpreters
        for hs in case["hash_seeds"]:
            runs.append(one_run(f"subprocess|PYTHONHASHSEED={hs}", ["--root", str(root)], root, d, True,
                                runner=core.run_reuse_subprocess, env={"PYTHONHASHSEED": str(hs)}))
        for r in runs:
            if r["crash"] and not ev["crash"]:
                ev["crash"] = r["crash"]
            r.pop("crash")
        ev["runs"] = runs
        return ev
    finally:
        shutil.rmtree(top, ignore_errors=True)


def run_edit_case(case: dict) -> dict:
    """The history of the process is a hidden parameter too: the tree is linted, its project-wide declaration (or a
    header) is edited, and it is linted again by the same process under the same root spelling - that result has to be
    the one a fresh interpreter gives for the edited contents."""
    import re
    rnd = random.Random(case["seed"])
    d = core.scratch_dir("c14e-")
    ev = {"tid": case["tid"], "label": case["label"], "crash": "", "runs": [], "pools": []}
    try:
        root = d / "root"
        p = projmodel.ensure_cls(case["p"])
        projmodel.materialise(p, root, rnd, outside=d / "outside")
        # a custom licence text without a file extension (accepted with a warning), used by one file: what an earlier load of
        # the tree registered must not change how a later load in the same process classifies it
        (root / "LICENSES").mkdir(exist_ok=True)
        (root / "LICENSES" / "LicenseRef-NoExt").write_text("custom text without extension\n")
        (root / "uses_noext.py").write_text("# SPDX-FileCopyrightText: 2020 Jane Doe\n# SPDX-License-Identifier: LicenseRef-NoExt\n")
        base = ["--root", str(root), "--no-multiprocessing"]
        warm = [one_run("before the edit|serial", base, root, d, True), one_run("before the edit|pool", ["--root", str(root)], root, d, False)]
        dep5, toml = root / ".reuse" / "dep5", root / "REUSE.toml"
        what = "nothing"
        if dep5.is_file() and re.search(r"^License: \S+", dep5.read_text(), re.M):
            t = dep5.read_text()
            t = re.sub(r"^License: (\S+)", lambda m: "License: " + ("ISC" if m.group(1) != "ISC" else "Zlib"), t, count=1, flags=re.M)
            t = re.sub(r"^Copyright: .*$", "Copyright: 2031 Somebody Else", t, count=1, flags=re.M)
            dep5.write_text(t)
            what = "dep5"
        elif toml.is_file() and "SPDX-License-Identifier = \"" in toml.read_text():
            t = toml.read_text()
            t = re.sub(r'SPDX-License-Identifier = "([^"]*)"', lambda m: 'SPDX-License-Identifier = "' + ("ISC" if m.group(1) != "ISC" else "Zlib") + '"', t, count=1)
            toml.write_text(t)
            what = "REUSE.toml"
        else:
            (root / "added_later.py").write_text("# SPDX-FileCopyrightText: 2031 Somebody Else\n# SPDX-License-Identifier: ISC\n")
            what = "a new file"
        ev["label"] = json.dumps({"tree": case["label"], "edited": what})
        runs = [one_run(f"after editing {what}|fresh interpreter", ["--root", str(root)], root, d, True, runner=core.run_reuse_subprocess),
                one_run(f"after editing {what}|same process as before the edit, serial", base, root, d, True),
                one_run(f"after editing {what}|same process as before the edit, pool", ["--root", str(root)], root, d, True)]
        for r in warm + runs:
            if r["crash"] and not ev["crash"]:
                ev["crash"] = r["crash"]
            r.pop("crash")
        ev["runs"] = runs
        ev["editChangedResult"] = warm[0]["lint"] != runs[0]["lint"]
        return ev
    finally:
        shutil.rmtree(d, ignore_errors=True)


def run(ctx: core.Ctx) -> int:
    q = ctx.quick
    rnd = random.Random(ctx.seed)
    ctx.assumptions += [
        "outputs are compared after sorting lists, expressing paths relative to the root, and dropping the SPDX "
        "DocumentNamespace / Created lines (the statement's 'up to ordering, random identifiers and timestamps')",
        "the SPDX DocumentName is the name of the checkout directory by design; when the same contents are checked out under "
        "another name it is treated as a document identifier and renamed before comparing",
        "the history of the process counts as a hidden parameter: a tree linted, edited and linted again by one process must give what "
        "a fresh interpreter gives for the edited contents",
        "PYTHONHASHSEED can only be sampled; directory-listing orders are seeded permutations of every os.scandir result",
        "the replay pool executes TLC schedules in real forked processes, one freshly unpickled callable per chunk, "
        "as multiprocessing.Pool.map does",
    ]
    mc = ctx.mc("LintPool", "MC_C14.cfg")
    mc_viol = [{"clause": f"model:{v}", "kf": "", "detail": mc["out"][-2000:]} for v in mc["violated"]]
    if not q:
        mc2 = ctx.mc("LintPool", ctx.cfg_with("MC_C14.cfg", "big", Files="{1, 2, 3, 4, 5}", ChunkSize=2))
        mc_viol += [{"clause": f"model:{v}", "kf": "", "detail": mc2["out"][-2000:]} for v in mc2["violated"]]
    # schedules from TLC
    scheds = []
    for cs, nfiles in ((1, "{1, 2, 3, 4}"), (2, "{1, 2, 3, 4, 5, 6}"), (3, "{1, 2, 3, 4, 5, 6, 7}")):
        r = ctx.tlc("LintPool", ctx.cfg_with("Gen_C14.cfg", f"cs{cs}", ChunkSize=cs, Files=nfiles), workers=1,
                    simulate=f"num={60 if q else 600}", extra=["-depth", "60", "-seed", str(ctx.seed + cs)], check=False)
        for ln in r["out"].splitlines():
            if ln.startswith('"{'):
                scheds.append(json.loads(core.parse_value(ln)))
        ctx.mc_runs.append({"module": "LintPool", "cfg": f"Gen_C14 cs={cs}", "role": "simulate", "wall_s": round(r["wall"], 2)})
    uniq = {json.dumps(s, sort_keys=True): s for s in scheds}
    scheds = list(uniq.values())
    ctx.notes["tlc_schedules"] = len(scheds)
    if not scheds:
        raise core.MachineryError("TLC produced no schedules")
    # trees
    trees = []
    lint = ctx.gen_json("Lint", "Gen_C01.cfg")
    for g in rnd.sample(lint, 24 if q else 300):
        trees.append((g["p"], json.dumps({"lint": [g["i1"], g["i2"], g["i3"], sorted(g["inv"])]})))
    pre = ctx.gen_json("Precedence", ctx.cfg_with("Sample_C04.cfg", "c14", SampleN=12 if q else 150), workers=1,
                       extra=["-seed", str(ctx.seed + 141)])
    for g in pre:
        c = c04.to_case(0, g, 0)
        trees.append((c["p"], c["label"]))
    inv = ctx.gen_json("Inventory", ctx.cfg_with("Sample_C06.cfg", "c14", SampleN=16 if q else 200), workers=1,
                       extra=["-seed", str(ctx.seed + 142)])
    for c in c06.make_cases(inv, rnd, 1, 1, ctx.seed):
        trees.append((c["p"], c["label"]))
    cases = []
    for i, (p, label) in enumerate(trees):
        cases.append({"tid": i + 1, "p": p, "label": label, "seed": ctx.seed * 97 + i,
                      "stacked": [None, "tight", "spaced"][i % 3],
                      "home": [".", "subprojects", "LICENSES/x", ".", "my dir/.reuse"][i % 5],
                      "rootname": ["root", "pr[1]oj", "subprojects", "LICENSES", "root", ".reuse", "COPYING", "x.license", "what?*"][i % 9],
                      "copyname": [None, "subprojects", "other", "LICENSES", ".git", "a.spdx", "REUSE.toml", "we[i]rd"][i % 8],
                      "dup_license": i % 6 == 5, "git_submodule": i % 4 == 3, "ignored_neighbours": i % 3 == 1,
                      "bulk": [0, 2 * (os.cpu_count() or 4) + 3, 0, 0, (os.cpu_count() or 4) + 1, 0, 0][i % 7],
                      "scandir_seeds": 3 if q else 6,
                      "scheds": rnd.sample(scheds, min(len(scheds), 3 if q else 8)),
                      "real_workers": [1, 2, 16] if q else [1, 2, 3, 4, 8, 16],
                      "hash_seeds": ([1, 2, 3, 4] if i % 4 == 0 else []) if q else [1, 2, 3, 4, 5, 6]})
    events = ctx.pmap(run_case, cases, chunksize=1, daemon=False)
    ecases = [{"tid": 100000 + i, "p": p, "label": label, "seed": ctx.seed * 89 + i} for i, (p, label) in enumerate(trees)]
    eevents = ctx.pmap(run_edit_case, ecases, chunksize=1, daemon=False)
    ctx.notes["edited_trees"] = {"trees": len(eevents), "edit_changed_the_report": sum(1 for e in eevents if e.pop("editChangedResult", False)),
                                 "edited": {k: sum(1 for e in eevents if json.loads(e["label"])["edited"] == k) for k in ("dep5", "REUSE.toml", "a new file")}}
    events += eevents
    n_runs = sum(len(e["runs"]) for e in events)
    for ev in events[:2]:
        ctx.samples.append({"tree": ev["label"], "settings": [r["cfg"] for r in ev["runs"]],
                            "pool_records": ev["pools"][:1]})
    slim = [{"tid": e["tid"], "label": e["label"], "crash": e["crash"], "pools": e["pools"],
             "runs": e["runs"]} for e in events]
    ctx.validate("Trace_C14", "Trace_C14.cfg", slim, shards=min(len(slim), core.NCPU))
    for r in ctx.rejects:
        if r.get("event"):
            e = r["event"]
            r["event"] = {"label": e["label"], "crash": e["crash"], "settings": [x["cfg"] for x in e["runs"]],
                          "exits": [x["exit"] for x in e["runs"]]}
    # RootTable.tla: which directory is the project (--root / top of the Git work tree / working directory), every cell replayed
    rt = roottable.stage(ctx, ("C14.", "crash"))
    mc_viol = list(mc_viol) + rt["mc_violations"]
    return ctx.finish(
        evaluations=n_runs + len(rt["events"]),
        distinct_nontrivial=len({e["label"] for e in events}) * 2,
        rule="trees: seeded Lint.tla states (REUSE.toml), TLC-sampled Precedence chains and Inventory projects (dep5), a "
             "third with stacked comment terminators; checkouts below and in directories with names that mean something "
             "inside a project or to glob (subprojects, LICENSES, .reuse, COPYING, *.license, pr[1]oj, what?*), and a copy of the contents under another "
             "name; settings per tree: serial, TLC-simulated LintPool schedules run by "
             "the replay pool, the real pool with 1..16 workers (recorded), permuted directory listings, five root / cwd "
             "spellings, PYTHONHASHSEED values in fresh interpreters; lint --json and spdx; distinct = trees x {lint, spdx}",
        mc_violations=mc_viol, extra={"runs": n_runs, "pool_executions_validated": sum(len(e["pools"]) for e in events)})


def replay(ctx: core.Ctx, path: str) -> int:
    return core.generic_replay(ctx, path)
