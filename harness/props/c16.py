"""C16 - malformed input yields a diagnostic and a defined exit status, never a crash.

TLC: Config.tla classifies every cell of the REUSE.toml shape matrix (key x TOML type; one and two
deviations at a time) and the other malformed-input classes as valid / invalid / grey, and states the
required outcome (Outcome).  Python writes each cell as real TOML / bytes, runs every sub-command
in-process with exceptions captured (a sample also as a real subprocess), injects read faults;
Trace_C16 re-derives the class and judges exit status, crash, and whether the message names the file."""
from __future__ import annotations

import datetime
import json
import os
import random
import shutil
import urllib.request
from pathlib import Path

import converttable
import core
import projmodel
import suitetrace
from props import c19

GOOD = "# SPDX-FileCopyrightText: 2020 Jane Doe\n# SPDX-License-Identifier: MIT\n"


def value_of(key: str, typ: str, zero: bool = False):
    import tomlkit
    if zero and key != "version" and typ in ("int", "float", "bool", "table"):
        # the representative of the type that Python takes for false: a wrong type stays a wrong type
        return {"int": 0, "float": 0.0, "bool": False, "table": {}}[typ]
    if typ == "int":
        return 1 if key == "version" else 5
    if typ == "float":
        return 1.5
    if typ == "bool":
        return True
    if typ == "string":
        return {"version": "1", "annotations": "foo", "path": "src/**", "precedence": "aggregate",
                "SPDX-FileCopyrightText": "2020 Jane", "SPDX-License-Identifier": "MIT"}[key]
    if typ == "datetime":
        return datetime.datetime(1979, 5, 27, 7, 32, tzinfo=datetime.timezone.utc)
    if typ == "empty-array":
        return []
    if typ == "array-of-strings":
        return {"path": ["src/**", "docs/**"], "SPDX-License-Identifier": ["MIT", "0BSD"]}.get(key, ["2020 A", "2021 B"])
    if typ == "array-of-ints":
        return [1, 2]
    if typ == "mixed-array":
        return ["a", 1]
    if typ == "table":
        return {"x": 1}
    if typ == "array-of-tables":
        return [{"x": 1}, {"y": "z"}]
    if typ == "empty-string":
        return ""
    if typ == "bad-enum":
        return "nearest"
    if typ == "bad-expression":
        return "MIT AND AND"
    if typ == "array-with-bad-expression":
        return ["MIT", "AND OR"]
    raise ValueError(typ)


def toml_for(devs: list, zero: bool = False) -> str:
    import tomlkit
    table = {"path": "src/**", "precedence": "closest", "SPDX-FileCopyrightText": "2020 Jane", "SPDX-License-Identifier": "MIT"}
    doc = {"version": 1, "annotations": [table]}
    for d in devs:
        k, t = d["key"], d["type"]
        target = doc if k in ("version", "annotations") else table
        if t == "absent":
            target.pop(k, None)
        elif k == "annotations" and t == "array-of-tables":
            pass
        else:
            target[k] = value_of(k, t, zero)
    return tomlkit.dumps(doc)


DEP5_OK = ("Format: https://www.debian.org/doc/packaging-manuals/copyright-format/1.0/\nUpstream-Name: p\n\n"
           "Files: src/*\nCopyright: 2020 Jane\nLicense: MIT\n")


def build(case: dict, d: Path) -> dict:
    root = d / "root"
    (root / "src").mkdir(parents=True)
    (root / "LICENSES").mkdir()
    (root / "LICENSES" / "MIT.txt").write_text("MIT text\n")
    (root / "src" / "a.py").write_text(GOOD + "a = 1\n")
    (root / "src" / "b.py").write_text("b = 2\n")
    info = {"config": "REUSE.toml", "faults": [], "target": "src/a.py"}
    o = case["other"]
    if not o:
        (root / "REUSE.toml").write_text(toml_for(case["devs"], bool(case.get("zero"))))
    elif o == "toml_syntax":
        (root / "REUSE.toml").write_text("version = 1\n[[annotations]\npath = \n")
    elif o == "toml_not_utf8":
        (root / "REUSE.toml").write_bytes(b"version = 1\n# caf\xe9 \xff\xfe\n[[annotations]]\npath = \"**\"\n")
    elif o == "toml_duplicate_key":
        (root / "REUSE.toml").write_text('version = 1\n[[annotations]]\npath = "src/**"\npath = "docs/**"\nSPDX-License-Identifier = "MIT"\n')
    elif o == "toml_nested_bad":
        (root / "REUSE.toml").write_text('version = 1\n')
        (root / "src" / "REUSE.toml").write_text('version = "one"\n')
        info["config"] = "src/REUSE.toml"
    elif o == "dep5_syntax":
        (root / ".reuse").mkdir()
        (root / ".reuse" / "dep5").write_text("Format: x\n\nFiles: *\nCopyright 2020 no colon here\n  License MIT\n\n\nFiles:\n")
        info["config"] = "dep5"
    elif o == "dep5_not_utf8":
        (root / ".reuse").mkdir()
        (root / ".reuse" / "dep5").write_bytes(DEP5_OK.encode() + b"Comment: caf\xe9 \xff\n")
        info["config"] = "dep5"
    elif o == "dep5_and_toml":
        (root / ".reuse").mkdir()
        (root / ".reuse" / "dep5").write_text(DEP5_OK)
        (root / "REUSE.toml").write_text("version = 1\n")
        info["config"] = "dep5"
    elif o == "dep5_and_nested_toml":        # the conflict does not depend on where the REUSE.toml lies
        (root / ".reuse").mkdir()
        (root / ".reuse" / "dep5").write_text(DEP5_OK)
        (root / "src" / "REUSE.toml").write_text("version = 1\n")
        info["config"] = "dep5"
    elif o == "dep5_bad_expression":
        (root / ".reuse").mkdir()
        (root / ".reuse" / "dep5").write_text(DEP5_OK.replace("License: MIT", "License: MIT AND AND"))
        info["config"] = "dep5"
    elif o == "covered_nul_bytes":
        (root / "src" / "a.py").write_bytes(b"\x00\x00\x01\x02 SPDX-License-Identifier: MIT\n\x00" * 20)
    elif o == "covered_not_utf8":
        (root / "src" / "a.py").write_bytes(b"# caf\xe9 \xff\xfe latin-1 text\n# SPDX-License-Identifier: MIT\nx = 1\n")
    elif o == "covered_long_line":
        (root / "src" / "a.py").write_text("# " + "x" * 1_000_000 + "\n" + GOOD)
    elif o == "covered_bad_expression":
        (root / "src" / "a.py").write_text("# SPDX-License-Identifier: MIT AND AND\nx = 1\n")
    elif o in ("covered_unreadable", "covered_vanishes"):
        info["faults"] = [str(root / "src" / "a.py")]
    elif o == "covered_gone_after_listing":
        info["vanish"] = "src/a.py"
    elif o == "licenseref_not_utf8":
        (root / "LICENSES" / "LicenseRef-x.txt").write_bytes(b"custom licence caf\xe9 \xff\xfe\n")
        (root / "src" / "b.py").write_text("# SPDX-FileCopyrightText: 2020 J\n# SPDX-License-Identifier: LicenseRef-x\n")
    elif o == "dot_license_not_utf8":
        (root / "src" / "b.py.license").write_bytes(b"SPDX-FileCopyrightText: 2020 Caf\xe9 \xff\nSPDX-License-Identifier: MIT\n")
        info["target"] = "src/b.py"
    elif o == "licenses_same_identifier":
        (root / "LICENSES" / "MIT.md").write_text("the same licence once more, as markdown\n")
        info["names"] = ["LICENSES/MIT.md", "LICENSES/MIT.txt"]
    elif o == "covered_terminator_run":      # a tag line followed by a long run of comment terminators and more text
        (root / "src" / "a.py").write_text("/* SPDX-FileCopyrightText: 2020 Jane Doe " + "*/" * 48 + " end of frame\n"
                                           "/* Copyright 2021 John Roe " + "-->" * 48 + " and on\n"
                                           "# SPDX-FileContributor: Some Body " + "]]" * 48 + " more\n")
    elif o == "license_dir_is_file":
        shutil.rmtree(root / "LICENSES")
        (root / "LICENSES").write_text("not a directory\n")
    elif o in ("template_raises", "template_undefined", "template_garbles_expression"):
        (root / ".reuse" / "templates").mkdir(parents=True)
        body = {"template_raises": "{{ 1/0 }}\n{% for x in copyright_lines %}{{ x }}\n{% endfor %}",
                "template_undefined": "{{ project.owner.name }}\n{% for x in copyright_lines %}{{ x }}\n{% endfor %}",
                "template_garbles_expression": "{% for x in copyright_lines %}{{ x }}\n{% endfor %}\n"
                                               "{% for e in spdx_expressions %}SPDX-License-Identifier: {{ e }} AND\n{% endfor %}"}[o]
        (root / ".reuse" / "templates" / "odd.jinja2").write_text(body)
        info["template"] = "odd"
    elif o == "dot_license_is_directory":
        (root / "src" / "b.py.license").mkdir()
        info["target"] = "src/b.py"
    elif o in ("two_files_fail_annotate", "three_files_fail_annotate"):
        # several files that each cannot be annotated, named in ONE invocation: the exit status says "failed", not how often
        n = 2 if o.startswith("two") else 3
        info["many"] = []
        for k in range(n):
            if k % 2 == 0:
                (root / "src" / f"u{k}.py").write_bytes(b"# caf\xe9 \xff\xfe latin-1 text\nx = 1\n")
            else:
                (root / "src" / f"u{k}.py").write_text("x = 1\n")
                (root / "src" / f"u{k}.py.license").mkdir()
            info["many"].append(f"src/u{k}.py")
    elif o in ("gitmodules_empty_path", "gitmodules_bare_path_key", "gitmodules_not_utf8", "ignored_name_not_utf8", "covered_name_not_utf8"):
        import subprocess
        if o == "gitmodules_bare_path_key":       # a key without '=' and value: legal git-config syntax (a boolean), printed without a value
            (root / ".gitmodules").write_text('[submodule "x"]\n\tpath\n\turl = https://example.com/x.git\n')
        elif o == "gitmodules_empty_path":
            (root / ".gitmodules").write_text('[submodule "x"]\n\tpath = \n\turl = https://example.com/x.git\n')
        elif o == "gitmodules_not_utf8":
            (root / ".gitmodules").write_bytes(b'[submodule "x"]\n\tpath = caf\xe9\n\turl = https://example.com/x.git\n')
        elif o == "ignored_name_not_utf8":
            (root / ".gitignore").write_text("*.log\n")
            with open(os.fsencode(str(root)) + b"/caf\xe9.log", "w") as fh:
                fh.write("log\n")
        else:
            with open(os.fsencode(str(root)) + b"/src/na\xefve.py", "w") as fh:
                fh.write(GOOD + "x = 1\n")
        if o != "covered_name_not_utf8":
            genv = dict(os.environ, GIT_CONFIG_GLOBAL="/dev/null", GIT_CONFIG_SYSTEM="/dev/null", HOME=str(d))
            subprocess.run(["git", "init", "-q"], cwd=root, env=genv, check=True, capture_output=True)
    elif o == "dot_license_is_fifo":
        (root / "src" / "b.py").write_text(GOOD + "b = 2\n")
        os.mkfifo(root / "src" / "b.py.license")
        info["target"] = "src/b.py"
    elif o == "toml_expression_parens":
        (root / "REUSE.toml").write_text('version = 1\n[[annotations]]\npath = "**"\nSPDX-FileCopyrightText = "J"\nSPDX-License-Identifier = "()"\n')
    elif o == "covered_expression_parens":
        (root / "src" / "a.py").write_text("# SPDX-License-Identifier: ()\nx = 1\n")
    elif o == "toml_glob_run":
        (root / "REUSE.toml").write_text('version = 1\n[[annotations]]\npath = "' + "**/" * 24 + 'zzz"\nSPDX-FileCopyrightText = "J"\nSPDX-License-Identifier = "MIT"\n')
        deep = root.joinpath(*(["a"] * 22))
        deep.mkdir(parents=True)
        (deep / "y.py").write_text(GOOD + "y = 1\n")
    elif o == "template_not_utf8":
        (root / ".reuse" / "templates").mkdir(parents=True)
        (root / ".reuse" / "templates" / "latin.jinja2").write_bytes(b"\xff\xfe{{ x }}\n{% for x in copyright_lines %}{{ x }}\n{% endfor %}")
        info["template"] = "latin"
    elif o == "template_bad_syntax":
        (root / ".reuse" / "templates").mkdir(parents=True)
        (root / ".reuse" / "templates" / "broken.jinja2").write_text("{% for x in copyright_lines %}\n{{ x }\n")
        info["template"] = "broken"
    return info


def commands(root: Path, info: dict, other: str) -> list:
    base = ["--root", str(root), "--no-multiprocessing"]
    t = str(root / info["target"])
    ann = [*base, "annotate", "--copyright", "New One", "--license", "MIT", "--year", "2024"]
    if info.get("template"):
        ann += ["--template", info["template"]]
    cmds = [("lint", [*base, "lint"]), ("lint-json", [*base, "lint", "--json"]), ("lint-lines", [*base, "lint", "--lines"]),
            ("spdx", [*base, "spdx"]), ("lint-file", [*base, "lint-file", t]), ("annotate", [*ann, t]),
            ("download-all", ["--root", str(root), "download", "--all"])]
    if other.startswith("dep5"):
        cmds.append(("convert-dep5", [*base, "convert-dep5"]))
    if info.get("many"):
        cmds.append(("annotate-many", [*ann, *[str(root / m) for m in info["many"]], t]))
        cmds.append(("annotate-recursive", [*ann, "--recursive", str(root / "src")]))
    return cmds


def _vanish_after_listing(rel: str):
    """A covered file that the walk still lists and that is gone when its report is made: the project's file iterators
    (shim, in this process only) delete it just before handing it out.  Returns the function that undoes the shim."""
    import reuse.project as rp
    originals = {n: getattr(rp.Project, n) for n in ("all_files", "subset_files")}

    def wrap(orig):
        def gen(self, *a, **k):
            for pth in orig(self, *a, **k):
                if str(pth).replace(os.sep, "/").endswith(rel):
                    try:
                        os.unlink(pth)
                    except OSError:
                        pass
                yield pth
        return gen
    for n, f in originals.items():
        setattr(rp.Project, n, wrap(f))

    def restore():
        for n, f in originals.items():
            setattr(rp.Project, n, f)
    return restore


def run_case(case: dict) -> list:
    d = core.scratch_dir("c16-")
    real = urllib.request.urlopen
    out = []
    try:
        urllib.request.urlopen = lambda url, *a, **k: c19._Resp(b"licence text\n")
        for name in case["cmds"]:
            shutil.rmtree(d / "root", ignore_errors=True)
            info = build(case, d)
            root = d / "root"
            args = dict(commands(root, info, case["other"]))[name]
            projmodel.set_faults(info["faults"])
            restore = _vanish_after_listing(info["vanish"]) if info.get("vanish") else None
            try:
                if case["other"] in ("covered_terminator_run", "dot_license_is_fifo", "toml_glob_run"):      # may not terminate: a real process with a time limit
                    r = core.run_reuse_subprocess(args, timeout=40)
                else:
                    r = core.run_reuse(args) if not case.get("subprocess") else core.run_reuse_subprocess(args)
            finally:
                projmodel.set_faults(())
                if restore:
                    restore()
            text = (r["out"] or "") + (r["err"] or "")
            read_problem = False
            must = False
            if case["other"] in ("covered_unreadable", "covered_vanishes", "covered_not_utf8", "covered_nul_bytes") and name == "lint-json" and r["exit"] in (0, 1) and not r["exc"]:
                try:
                    rep = json.loads(r["out"])
                    nc = rep["non_compliant"]
                    flagged = {projmodel._rel(x, root) for k in ("read_errors", "missing_licensing_info", "missing_copyright_info") for x in nc[k]}
                    read_problem = "src/a.py" in flagged
                    must = case["other"] in ("covered_unreadable", "covered_vanishes", "covered_nul_bytes")
                except ValueError:
                    pass
            names = (info["config"] in text) if info["config"] != "dep5" else ("dep5" in text)
            if info.get("names"):            # the diagnostic has to name the conflicting files themselves
                names = all(n in text for n in info["names"])
            out.append({"tid": case["tid"] * 16 + len(out), "label": case["label"], "cmd": name, "devs": case["devs"], "other": case["other"],
                        "class": case["class"], "exit": r["exit"], "crashed": bool(r["exc"]), "namesFile": bool(names),
                        "mustFlag": must, "readProblem": read_problem, "tail": (r["exc"] or text)[-260:].encode("ascii", "replace").decode()})
        return out
    finally:
        urllib.request.urlopen = real
        shutil.rmtree(d, ignore_errors=True)


def run(ctx: core.Ctx) -> int:
    q = ctx.quick
    rnd = random.Random(ctx.seed)
    ctx.assumptions += [
        "classification of the REUSE.toml shape matrix (valid / invalid / grey) follows REUSE specification 3.3 as "
        "transcribed in Config.tla; grey cells only require 'no crash, exit status 0..2'",
        "an unhandled exception is observed as an exception escaping the click entry point (in-process) or a traceback "
        "with exit status 1 (subprocess sample)",
        "unreadable / vanishing files are injected by an audit hook that raises on open",
    ]
    mc = ctx.mc("Config", "Gen_C16.cfg")
    gens = [json.loads(core.parse_value(ln)) for ln in mc["out"].splitlines() if ln.startswith('"{')]
    pairs = ctx.gen_json("Config", ctx.cfg_with("Gen_C16.cfg", "two", MaxDev=2))
    pairs = [g for g in pairs if len(g["devs"]) == 2]
    ctx.exhaustive = True
    if q:
        pairs = rnd.sample(pairs, 250)
    all_cmds = ["lint", "lint-json", "lint-lines", "spdx", "lint-file", "annotate", "download-all"]
    cases = []
    for g in gens:
        cases.append({"devs": g["devs"], "other": "", "class": g["class"], "cmds": all_cmds,
                      "label": json.dumps([[d["key"], d["type"]] for d in g["devs"]])})
    for g in gens:          # the same single deviations with the type's zero value (false, 0, 0.0, {}): two sub-commands each
        if any(d["type"] in ("int", "float", "bool", "table") and d["key"] != "version" for d in g["devs"]):
            cases.append({"devs": g["devs"], "other": "", "class": g["class"], "cmds": ["lint", "annotate"], "zero": True,
                          "label": json.dumps(["zero value", [[d["key"], d["type"]] for d in g["devs"]]])})
    for i, g in enumerate(pairs):
        cases.append({"devs": g["devs"], "other": "", "class": g["class"], "cmds": [all_cmds[i % len(all_cmds)], "lint-json"],
                      "label": json.dumps([[d["key"], d["type"]] for d in g["devs"]])})
    others = {"toml_syntax": "invalid", "toml_not_utf8": "invalid", "toml_duplicate_key": "invalid", "toml_nested_bad": "invalid",
              "dep5_syntax": "invalid", "dep5_not_utf8": "invalid", "dep5_and_toml": "invalid", "dep5_bad_expression": "grey",
              "covered_nul_bytes": "valid", "covered_not_utf8": "valid", "covered_long_line": "valid", "covered_bad_expression": "valid",
              "covered_unreadable": "valid", "covered_vanishes": "valid", "licenseref_not_utf8": "valid", "license_dir_is_file": "grey",
              "template_bad_syntax": "grey", "dot_license_not_utf8": "valid", "licenses_same_identifier": "invalid",
              "dep5_and_nested_toml": "invalid", "covered_terminator_run": "valid",
              "two_files_fail_annotate": "valid", "three_files_fail_annotate": "valid",
              "covered_gone_after_listing": "valid", "dot_license_is_fifo": "valid", "toml_expression_parens": "invalid", "covered_expression_parens": "valid", "toml_glob_run": "valid",
              "template_not_utf8": "grey",
              "gitmodules_empty_path": "valid", "gitmodules_bare_path_key": "valid", "gitmodules_not_utf8": "valid", "ignored_name_not_utf8": "valid", "covered_name_not_utf8": "valid",
              "template_raises": "grey", "template_undefined": "grey", "template_garbles_expression": "grey", "dot_license_is_directory": "grey"}
    for o, cls in others.items():
        cmds = list(all_cmds) + (["convert-dep5"] if o.startswith("dep5") else [])
        if o in ("covered_unreadable", "covered_vanishes", "covered_gone_after_listing"):
            cmds = ["lint", "lint-json", "lint-lines", "spdx", "lint-file"]
        if o in ("covered_terminator_run", "dot_license_is_fifo", "toml_glob_run"):
            cmds = ["lint", "spdx", "lint-file"]
        if o.endswith("_files_fail_annotate"):
            cmds = ["lint", "annotate-many", "annotate-recursive"]
        cases.append({"devs": [], "other": o, "class": cls, "cmds": cmds, "label": json.dumps(o),
                      # what a terminal or a pipe does with a file name that is not UTF-8 is the real interpreter's business,
                      # not that of click's test runner: these inputs go through the real executable
                      "subprocess": o in ("covered_name_not_utf8", "ignored_name_not_utf8")})
    for g in rnd.sample(gens, 8 if q else 40):        # the real executable on a sample
        cases.append({"devs": g["devs"], "other": "", "class": g["class"], "cmds": ["lint", "annotate"], "subprocess": True,
                      "label": json.dumps(["subprocess", [[d["key"], d["type"]] for d in g["devs"]]])})
    for i, c in enumerate(cases):
        c["tid"] = i + 1
    evl = ctx.pmap(run_case, cases, chunksize=4, daemon=False)
    events = [e for es in evl for e in es]
    for c_, es in zip(cases, evl):
        for e in es:                     # (events carry tid = 16 x case id + command index)
            ctx._case_of[e["tid"]] = ("props.c16:run_case", c_)
    for ev in events[:: max(1, len(events) // 5)][:5]:
        ctx.samples.append({k: ev[k] for k in ("label", "cmd", "class", "exit", "crashed", "namesFile", "tail")})
    # every CLI invocation of the repository's own tests: exit status in {0, 1, 2}, no unhandled exception
    events += suitetrace.for_c16(suitetrace.collect(ctx), 100000)
    ctx.validate("Trace_C16", "Trace_C16.cfg", events)
    # ConvertTable.tla: every refusal of convert-dep5 is a usage error (exit status 2), never a traceback
    cv = converttable.stage(ctx, ("C16.", "crash"))
    for r in ctx.rejects:
        d = r.get("detail")
        if isinstance(d, list):
            r["detail"] = {"input": d[0], "command": d[1], "exit": d[2], "tail": d[3]}
    return ctx.finish(
        evaluations=len(events) + len(cv["events"]),
        distinct_nontrivial=len({(e["label"], e["cmd"]) for e in events if e["class"] != "valid"}),
        rule="REUSE.toml shape matrix: 6 keys x 16 value shapes, every single deviation x 7 sub-commands (complete), pairs of "
             "deviations (quick: seeded sample of 250; thorough: all) x 2 sub-commands; 18 further classes (broken / non-UTF-8 "
             "TOML and dep5, duplicate keys, nested bad REUSE.toml, dep5 + REUSE.toml, covered files with NULs / invalid UTF-8 "
             "/ a 1 MB line / bad expression, unreadable and vanishing files, non-UTF-8 LicenseRef text and .license, "
             "LICENSES as a file, broken template) x every sub-command; a sample through the real executable; every CLI invocation "
             "of the repository's own tests/test_cli_*.py (exit-status discipline only); "
             "non-trivial = (input, command) pairs whose input is not a valid configuration",
        mc_violations=[{"clause": f"model:{v}", "kf": "", "detail": mc["out"][-1500:]} for v in mc["violated"]] + cv["mc_violations"])


def replay(ctx: core.Ctx, path: str) -> int:
    return core.generic_replay(ctx, path)
