"""C06 - licence inventory (missing / unused / bad / deprecated / without extension).

TLC: Inventory.tla enumerates identifier-class x use x provision cases, checks M |= R and the
set algebra of R, prints each case's abstract project with placeholder identifiers ID1, ID2;
Python substitutes real identifiers of the slot's class (several per class, the whole bundled
SPDX list in the thorough tier), materialises, lints; Trace_Project judges the five sets."""
from __future__ import annotations

import json
import random

import core
import projmodel

POOLS = None


def pools() -> dict:
    global POOLS
    if POOLS is None:
        m = projmodel.spdx_classes()
        skip = {"MIT", "0BSD", "Classpath-exception-2.0"}
        cur = sorted(k for k, v in m.items() if v == "cur" and k not in skip and not k.endswith("+"))
        dep = sorted(k for k, v in m.items() if v == "dep" and not k.endswith("+") and
                     k not in json.load(open(core.REPO / "src/reuse/resources/exceptions.json")).get("x", {}))
        exc_ids = {x["licenseExceptionId"] for x in
                   json.load(open(core.REPO / "src/reuse/resources/exceptions.json"))["exceptions"]}
        dep = [k for k in dep if k not in exc_ids]
        exc = sorted(k for k in exc_ids if m.get(k) == "exc" and k not in skip)
        POOLS = {
            "cur": cur, "dep": dep, "exc": exc,
            "ref": ["LicenseRef-custom", "LicenseRef-My.Own-1.0", "LicenseRef-a", "LicenseRef-Proprietary-X9",
                    "LicenseRef-2-clause", "LicenseRef-scancode-public-domain", "LicenseRef-Unknown-vendor", "LicenseRef-MyUnknown1"],
            "unk": ["Nonexistent-9.9", "mit", "Mit", "apache-2.0", "GPL-3.0-or-newer", "LicenseRef-my_licence",
                    "Licenseref-lower", "LicenseRef-with space".replace(" ", "_"), "Custom", "gpl-3.0-or-later", "X11-like"],
        }
    return POOLS


def substitute(g: dict, choice: dict) -> dict:
    txt = json.dumps(g["p"])
    for ph in sorted(choice, key=len, reverse=True):
        txt = txt.replace(ph, choice[ph])
    p = json.loads(txt)
    p["cls"] = {}
    for en in p["licfiles"]:
        n = en["name"]
        en["stem"] = n[: n.rfind(".")] if n.rfind(".") > 0 else n
    return p


def label_of(g, choice):
    return json.dumps({"slots": [f"{s['cls']}/{s['use']}/{s['prov']}" for s in g["slots"]], "ids": choice})


def make_cases(gens, rnd, reps, tid0, seed, sweep=None):
    cases = []
    P = pools()
    for g in gens:
        for r in range(reps):
            choice, used = {}, set()
            for k, s in enumerate(g["slots"], 1):
                pool = [x for x in P[s["cls"]] if x not in used]
                if sweep is not None and k == 1:
                    c = sweep
                else:
                    c = pool[(r * 7 + rnd.randrange(len(pool))) % len(pool)] if r else pool[rnd.randrange(min(6, len(pool)))]
                used.add(c)
                choice[f"ID{k}"] = c
            p = substitute(g, choice)
            cases.append({"tid": tid0 + len(cases), "p": p, "checks": ["C06", "C01"], "label": label_of(g, choice),
                          "seed": seed + len(cases)})
    return cases


def run(ctx: core.Ctx) -> int:
    q = ctx.quick
    rnd = random.Random(ctx.seed)
    ctx.assumptions += [
        "identifier classes: cur/dep/exc from the bundled SPDX JSON files; ref = 'LicenseRef-' + SPDX idstring; "
        "unk = everything else (wrong case, unknown names, malformed LicenseRef-)",
        "two LICENSES/ files resolving to one identifier are outside the domain (the tool refuses them)",
    ]
    mc = ctx.mc("Inventory", "MC_C06.cfg")
    mc_viol = [{"clause": f"model:{v}", "kf": "", "detail": mc["out"][-2500:]} for v in mc["violated"]]
    if not q:
        mc2 = ctx.mc("Inventory", ctx.cfg_with("MC_C06.cfg", "n2", N=2))
        mc_viol += [{"clause": f"model:{v}", "kf": "", "detail": mc2["out"][-2500:]} for v in mc2["violated"]]
    gens1 = ctx.gen_json("Inventory", "Gen_C06.cfg")
    ctx.exhaustive = True
    gens2 = ctx.gen_json("Inventory", ctx.cfg_with("Sample_C06.cfg", "t", SampleN=1200 if q else 20000), workers=1,
                         extra=["-seed", str(ctx.seed + 7)])
    cases = make_cases(gens1, rnd, 3 if q else 8, 1, ctx.seed)
    cases += make_cases(gens2, rnd, 1, len(cases) + 1, ctx.seed)
    if not q:
        # one pass over every identifier of the bundled lists, in a rotating use/provision cell of its class
        P = pools()
        by_cls = {}
        for g in gens1:
            by_cls.setdefault(g["slots"][0]["cls"], []).append(g)
        for cls in ("cur", "dep", "exc"):
            for j, ident in enumerate(P[cls]):
                g = by_cls[cls][j % len(by_cls[cls])]
                cases += make_cases([g], rnd, 1, len(cases) + 1, ctx.seed, sweep=ident)
    # identifiers whose spelling interacts with file-name handling go through EVERY cell of their class in both tiers:
    # an identifier that continues another one after a dot (OLDAP-2.2.2 / OLDAP-2.2), identifiers ending in '+'
    P = pools()
    allids = set(P["cur"]) | set(P["dep"]) | set(P["exc"])
    m = projmodel.spdx_classes()
    special = sorted(k for k in m if m[k] in ("cur", "dep", "exc") and "." in k and k.rsplit(".", 1)[0] in m and not k.endswith("+"))
    special = [k for k in special if k in allids]
    # ... and identifiers whose '+' form is itself on the list (GPL-2.0 / GPL-2.0+): ID+.txt then names a listed identifier
    special += sorted(k for k in allids if (k + "+") in m)
    by_cls1 = {}
    for g in gens1:
        by_cls1.setdefault(g["slots"][0]["cls"], []).append(g)
    for ident in special:
        for g in by_cls1.get(m[ident], []):
            cases += make_cases([g], rnd, 1, len(cases) + 1, ctx.seed, sweep=ident)
    ctx.notes["identifiers_continuing_another_identifier"] = special
    for k_, c_ in enumerate(cases):
        if k_ % 3 == 1 and not c_.get("git"):
            c_["twins"] = True
    events = ctx.pmap(projmodel.run_project_case, cases, chunksize=16)
    for ev in events[:: max(1, len(events) // 4)][:4]:
        o = ev["obs"]
        ctx.samples.append({"case": json.loads(ev["label"]),
                            "observed": {k: o[k] for k in ("missing", "bad", "unused", "deprecated", "noext", "used", "exit")}})
    ctx.validate("Trace_Project", "Trace_Project.cfg", events)
    for r in ctx.rejects:
        if isinstance(r.get("detail"), str):
            try:
                r["detail"] = json.loads(r["detail"])
            except ValueError:
                pass
        if r.get("event"):
            o = r["event"]["obs"]
            r["event"] = {"p": r["event"]["p"], "label": r["event"]["label"],
                          "obs": {k: o[k] for k in o if k != "files"}}
    return ctx.finish(
        evaluations=len(events),
        distinct_nontrivial=len({e["label"] for e in events if '/none/absent' not in e["label"]}),
        rule="slot = class(5) x use(11) x provision(7): complete for one slot (TLC) x several real identifiers per class, "
             "TLC-sampled two-slot cases, identifiers that continue another identifier after a dot or whose '+' form is itself listed, in every cell, thorough: every "
             "identifier of the bundled SPDX lists once; non-trivial = the "
             "identifier is used or provided",
        mc_violations=mc_viol)


def replay(ctx: core.Ctx, path: str) -> int:
    payload = json.load(open(path))
    ev = payload["event"]
    case = {"tid": 1, "p": ev["p"], "checks": ["C06", "C01"], "label": ev.get("label", ""), "seed": ctx.seed}
    e = projmodel.run_project_case(case)
    print(json.dumps({k: v for k, v in e["obs"].items() if k != "files"}, indent=1))
    ctx.validate("Trace_Project", "Trace_Project.cfg", [e])
    return ctx.finish(evaluations=1, distinct_nontrivial=2, rule="replay of one recorded case")
