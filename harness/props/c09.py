"""C09 - annotate accumulates information and never drops any.

TLC: Annotate.tla (Monotone as an action property over all histories with failing subsets) and the
histories of bundles printed by AnnotateMC (all of length <= 2, quick, / <= 3, thorough, plus -simulate
for longer ones); each history is replayed on files that start empty, with code, with foreign tags, with
headers of their own, in several comment styles and option flavours; after every step the linter's view
is recorded and Trace_Annotate judges the step (C09 clauses; the running model is the trace itself)."""
from __future__ import annotations

import json
import random

import anncases
import annhist
import core
import workflow

PROP = "C09"
PREFIXES = ("C09.", "crash")
TYPES = [("sample.py", "python"), ("sample.c", "c"), ("sample.html", "html"), ("sample.cpp", "cpp"), ("sample.jl", "julia"),
         ("sample.tex", "tex"), ("sample.bat", "bat"), ("sample.ml", "ml"), ("sample.hs", "haskell"), ("sample.el", "lisp")]
KINDS = ["empty", "code", "foreign", "ownheader", "owncon", "shebang", "comment"]


DOT_TYPES = [("sample.png", None), ("data.json", None), ("blob.bin", None)]
DOT_CONTENTS = [None, "Copyright (C) 2017 Mary Sue\n", "SPDX-FileCopyrightText: 2001 Old Dot Holder\n\nSPDX-License-Identifier: Zlib\n",
                "(c) 2003 Plain Person\nCopyright 2004 Other Person\n"]


def flavour_for(rnd: random.Random, sname: str, styles: dict) -> dict:
    if sname is None:           # the header lives in the .license sibling throughout the history
        x = rnd.random()
        return {"template": "full"} if x < 0.2 else {"no_replace": True} if x < 0.3 else {}
    st = styles[sname]
    fl = {}
    x = rnd.random()
    if x < 0.15 and st["hasMulti"] and st["hasSingle"]:
        fl["multi_line"] = True
    elif x < 0.30:
        fl["no_replace"] = True
    elif x < 0.45:
        fl["template"] = "full"
    elif x < 0.52 and sname == "python":
        fl["template"] = "pycommented"
    elif x < 0.60:
        fl["template"] = "nocon"
    return fl


def run(ctx: core.Ctx) -> int:
    import annmodel
    q = ctx.quick
    rnd = random.Random(ctx.seed)
    ctx.assumptions += [
        "every seventh history moves the header into a .license sibling at one step (--force-dot-license; a sibling shadows the "
        "file's own header by specification, so what the file declared has to be carried over); files whose header ALWAYS lives "
        "in the sibling (uncommentable / binary / unknown types with --fallback-dot-license) have histories of their own, with "
        "pre-existing sibling contents",
        "under a template that does not render contributors, contributor lines are not required to survive",
        "--skip-existing on a file that already declares something is a documented no-op",
    ]
    mc = ctx.mc("AnnotateMC", "MC_Annotate.cfg")
    mc_viol = [{"clause": f"model:{v}", "kf": "", "detail": mc["out"][-2500:]} for v in mc["violated"]]
    gens = ctx.gen_json("AnnotateMC", ctx.cfg_with("Gen_Annotate.cfg", "h", MaxSteps=2))
    hists = [g["hist"] for g in gens]
    ctx.exhaustive = True
    n3 = 300 if q else 1000
    g3 = ctx.gen_json("AnnotateMC", ctx.cfg_with("Gen_Annotate.cfg", "h3", MaxSteps=3))
    h3 = [g["hist"] for g in g3 if len(g["hist"]) == 3]
    hists += rnd.sample(h3, min(n3, len(h3))) if q else h3
    # longer histories: TLC -simulate on the same machine
    r = ctx.tlc("AnnotateMC", ctx.cfg_with("Gen_Annotate.cfg", "sim", MaxSteps=6), workers=1,
                simulate=f"num={60 if q else 800}", extra=["-depth", "8", "-seed", str(ctx.seed + 9)], check=False)
    sims = [json.loads(core.parse_value(ln))["hist"] for ln in r["out"].splitlines() if ln.startswith('"{')]
    hists += [h for h in sims if len(h) >= 4]
    styles = {s["name"]: s for s in annmodel.style_table()}
    cases = []
    for hi, h in enumerate(hists):
        combos = [(TYPES[(hi + j) % len(TYPES)], KINDS[(hi * 3 + j) % len(KINDS)]) for j in range(1 if q and len(h) > 2 else 2)]
        for (fname, sname), kind in combos:
            if kind == "shebang" and not styles[sname]["shebangs"]:
                kind = "code"
            seed = f"{ctx.seed}|{len(cases)}"
            steps = []
            # in some histories one step moves the header into a .license sibling (--force-dot-license): what the file
            # declared so far stays declared, and later steps accumulate in the sibling
            force_at = (hi // 7) % len(h) if hi % 7 == 3 else None
            forced = False
            for si, s in enumerate(h):
                fl = flavour_for(random.Random(f"{seed}|{si}"), sname if not forced else None, styles)
                recursive = forced and (hi // 7) % 2 == 0       # later steps reach the file through `annotate -r .`
                if recursive:
                    fl = dict(fl, extra=["--recursive"])
                if si == force_at:
                    fl, forced = {"dot": "force"}, True
                steps.append(anncases.step_of(s["b"], rnd, [fname], fl, must=True, pick_seed=f"{seed}|{s['b']['name']}"))
                if recursive and si != force_at:
                    steps[-1]["cli_targets"] = ["."]
            cases.append({"tid": len(cases) + 1, "files": [{"name": fname, "kind": kind, "style_name": sname,
                                                            "eol": ["\n", "\r\n", "\r"][len(cases) % 3]}],
                          "steps": steps,
                          "label": anncases.label(file=fname, body=kind, history=[s["b"]["name"] for s in h],
                                                  flavours=[st["flavour"] for st in steps])})
    # templates (also already-commented ones) that leave out a category, on files that declare that category: the tool may
    # refuse, but what the file declared must not be gone after a run that reports success
    singles1 = [h for h in hists if len(h) == 1]
    for tmpl in ("pydrop", "pydroplic", "pydropcop", "droplic", "dropcop", "dropall"):
        for kind in ("ownheader", "owncon"):
            for h in singles1[:3]:
                seed = f"{ctx.seed}|tmpl|{len(cases)}"
                st_ = anncases.step_of(h[0]["b"], rnd, ["sample.py"], {"template": tmpl}, must=False, pick_seed=seed)
                cases.append({"tid": len(cases) + 1, "files": [{"name": "sample.py", "kind": kind, "style_name": "python", "eol": "\n"}],
                              "steps": [st_, st_],
                              "label": anncases.label(file="sample.py", body=kind, history=[h[0]["b"]["name"]] * 2, flavours=[{"template": tmpl}] * 2)})
    # the same person first named as contributor, later as holder (and the other way round): both lines stay
    bundles = {h[0]["b"]["name"]: h[0]["b"] for h in singles1}
    if "B3" in bundles and "B1" in bundles:
        for fname, sname in (("sample.py", "python"), ("sample.c", "c"), ("sample.html", "html")):
            for order in (("B3", "B1"), ("B1", "B3")):
                seed = f"{ctx.seed}|same|{len(cases)}"
                sts = []
                for bn in order:
                    st_ = anncases.step_of(bundles[bn], rnd, [fname], {}, must=True, pick_seed=seed)
                    st_["req"] = dict(st_["req"], holders=["Same Person"] if st_["req"]["holders"] else [], con=["Same Person"] if st_["req"]["con"] else [])
                    sts.append(st_)
                cases.append({"tid": len(cases) + 1, "files": [{"name": fname, "kind": "code", "style_name": sname, "eol": "\n"}], "steps": sts,
                              "label": anncases.label(file=fname, body="code", history=list(order), flavours=[{"same-name-as-holder-and-contributor": True}] * 2)})
    # a header that names only a contributor, moved into a .license sibling: the contributor stays declared
    for fname, sname in (("sample.py", "python"), ("sample.c", "c"), ("sample.html", "html")):
        for h in singles1[:4]:
            seed = f"{ctx.seed}|conly|{len(cases)}"
            st_ = anncases.step_of(h[0]["b"], rnd, [fname], {"dot": "force"}, must=True, pick_seed=seed)
            cases.append({"tid": len(cases) + 1, "files": [{"name": fname, "kind": "conly", "style_name": sname, "eol": "\n"}], "steps": [st_],
                          "label": anncases.label(file=fname, body="conly", history=[h[0]["b"]["name"]], flavours=[{"dot": "force"}])})
    # a header that names a holder with non-ASCII letters, extended by an ASCII-only request in an interpreter whose locale
    # is not UTF-8: what was declared stays declared (and the file stays UTF-8)
    for fname, sname in (("sample.py", "python"), ("sample.c", "c"), ("sample.html", "html")):
        for h in singles1[:4]:
            seed = f"{ctx.seed}|loc|{len(cases)}"
            st_ = dict(anncases.step_of(h[0]["b"], rnd, [fname], {}, must=True, pick_seed=seed), locale_c=True)
            st_["req"] = dict(st_["req"], holders=["Plain Ascii Holder"] if st_["req"]["holders"] else [], con=["Ascii Contributor"] if st_["req"]["con"] else [])
            cases.append({"tid": len(cases) + 1, "files": [{"name": fname, "kind": "josecode", "style_name": sname, "eol": "\n"}], "steps": [st_],
                          "label": anncases.label(file=fname, body="josecode", history=[h[0]["b"]["name"]], flavours=[{"locale": "C"}])})
    # the same histories on files whose header always goes to FILE.license (sibling absent, or holding notices already)
    for hi, h in enumerate(hists if not q else hists[::3]):
        fname, _ = DOT_TYPES[hi % len(DOT_TYPES)]
        dot = DOT_CONTENTS[(hi // 2) % len(DOT_CONTENTS)]
        seed = f"{ctx.seed}|dot|{len(cases)}"
        steps = []
        for si, s in enumerate(h):
            fl = flavour_for(random.Random(f"{seed}|{si}"), None, styles)
            if fname == "blob.bin":
                fl["dot"] = "fallback"
            steps.append(anncases.step_of(s["b"], rnd, [fname], fl, must=True, pick_seed=f"{seed}|{s['b']['name']}"))
        fdesc = {"name": fname, "kind": "binary" if fname != "data.json" else "code", "style_name": None, "eol": "\n",
                 "unrecognised": fname == "blob.bin"}
        if dot is not None:
            fdesc["dotlicense"] = dot
        cases.append({"tid": len(cases) + 1, "files": [fdesc], "steps": steps,
                      "label": anncases.label(file=fname, body="sibling:" + ("absent" if dot is None else dot.split("\n")[0][:24]),
                                              history=[s["b"]["name"] for s in h], flavours=[st["flavour"] for st in steps])})
    evl = ctx.pmap(annhist.run_history, cases, chunksize=8)
    events = [e for es in evl for e in es]
    for ev in [e for e in events if e["k"] >= 2][:: max(1, len(events) // 4)][:4]:
        ctx.samples.append({"case": json.loads(ev["label"]), "step": ev["k"], "cmd": ev["cmd"], "exit": ev["exit"],
                            "before": {k: ev["files"][0]["pre"][k] for k in ("cop", "lic", "con")},
                            "after": {k: ev["files"][0]["post"][k] for k in ("cop", "lic", "con")}})
    ctx.validate("Trace_Annotate", "Trace_Annotate.cfg", events, group_key="tid")
    for r2 in ctx.rejects:
        if isinstance(r2.get("detail"), str):
            try:
                r2["detail"] = json.loads(r2["detail"])
            except ValueError:
                pass
    # Workflow.tla: annotate (also --force-dot-license, --skip-existing) interleaved with the other commands: nothing declared is lost
    wf = workflow.stage(ctx, PREFIXES)
    mc_viol = list(mc_viol) + wf["mc_violations"]
    return ctx.finish(
        evaluations=len(events) + len(wf["events"]),
        distinct_nontrivial=len({e["label"] for e in events if e["k"] >= 2 and e["exit"] == 0}),
        rule="histories over 10 bundles (holders, licences, contributors, prefixes, year forms, --merge-copyrights, "
             "--skip-existing): all of length <= 2, length 3 (quick: seeded sample), TLC-simulated longer ones; on 10 "
             "comment styles x 7 initial contents x LF/CRLF/CR, with seeded --multi-line / --no-replace / template "
             "flavours per step; one event per step; non-trivial = steps after the first that succeeded",
        mc_violations=mc_viol, only_prefixes=PREFIXES,
        extra={"histories": len(cases), "steps": len(events)})


def replay(ctx: core.Ctx, path: str) -> int:
    return core.generic_replay(ctx, path)
