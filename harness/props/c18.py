"""C18 - the SPDX bill of materials is a faithful, well-formed image of the project.

TLC: SpdxGen.tla enumerates / samples expression trees and prints the projects; Lint.tla and
Inventory.tla contribute further project states; Trace_C18 (module Spdx: truth-table equivalence,
Project!InfoOf) judges the parsed document.  Python: strict tag-value reader, SPDX expression
reader, hashlib.sha1 as environment fact."""
from __future__ import annotations

import hashlib
import json
import random
import re
import shutil

import core
import workflow
import projmodel
from props import c06

TAG = re.compile(r"^([A-Za-z][A-Za-z0-9]*): ?(.*)$", re.S)


def parse_tag_value(text: str) -> dict:
    """Strict SPDX tag-value reader: 'Tag: value' lines, <text>..</text> may span lines, blank lines."""
    errors, pairs = [], []
    lines = text.split("\n")
    i = 0
    while i < len(lines):
        ln = lines[i]
        if not ln.strip():
            i += 1
            continue
        m = TAG.match(ln)
        if not m:
            errors.append(f"line {i + 1}: not a tag-value line: {ln[:60]!r}")
            i += 1
            continue
        tag, val = m.group(1), m.group(2)
        if "<text>" in val:
            while "</text>" not in val:
                i += 1
                if i >= len(lines):
                    errors.append(f"unterminated <text> for {tag}")
                    break
                val += "\n" + lines[i]
            if val.count("<text>") != 1 or val.count("</text>") != 1 or not val.rstrip().endswith("</text>"):
                errors.append(f"malformed <text> value for {tag}")
        pairs.append((tag, val))
        i += 1
    return {"pairs": pairs, "errors": errors}


def untext(v: str) -> str:
    v = v.strip()
    if v.startswith("<text>") and v.endswith("</text>"):
        return v[6:-7]
    return v


class ExprError(ValueError):
    pass


def parse_expr(s: str) -> dict:
    """SPDX licence expression -> tree (WITH binds tightest, then AND, then OR)."""
    toks = re.findall(r"\(|\)|[^\s()]+", s)
    pos = [0]

    def peek():
        return toks[pos[0]] if pos[0] < len(toks) else None

    def eat():
        t = peek()
        pos[0] += 1
        return t

    def atom():
        t = eat()
        if t is None:
            raise ExprError("unexpected end")
        if t == "(":
            e = expr_or()
            if eat() != ")":
                raise ExprError("missing )")
            return e
        if t in (")", "AND", "OR", "WITH"):
            raise ExprError(f"unexpected {t}")
        leaf = {"key": t, "base": t[:-1] if t.endswith("+") else t}
        if peek() == "WITH":
            eat()
            x = eat()
            if x is None or x in ("(", ")", "AND", "OR", "WITH"):
                raise ExprError("bad WITH")
            return {"op": "WITH", "l": leaf, "x": {"key": x, "base": x}}
        return leaf

    def expr_and():
        e = atom()
        while peek() == "AND":
            eat()
            e = {"op": "AND", "l": e, "r": atom()}
        return e

    def expr_or():
        e = expr_and()
        while peek() == "OR":
            eat()
            e = {"op": "OR", "l": e, "r": expr_and()}
        return e

    e = expr_or()
    if pos[0] != len(toks):
        raise ExprError("trailing tokens")
    return e


def project_doc(text: str) -> dict:
    tv = parse_tag_value(text)
    doc = {"files": [], "describes": [], "licenses": [], "errors": list(tv["errors"]), "header": {}}
    cur, kind = None, "header"
    for tag, val in tv["pairs"]:
        if tag == "FileName":
            cur = {"name": val, "spdxid": "", "sha1": "", "concluded": "?", "tree": {"key": "?", "base": "?"},
                   "infos": [], "cop": []}
            doc["files"].append(cur)
            kind = "file"
        elif tag == "LicenseID":
            cur = {"id": val, "text": "", "name": ""}
            doc["licenses"].append(cur)
            kind = "license"
        elif tag == "Relationship":
            parts = val.split(" ")
            if len(parts) == 3 and parts[0] == "SPDXRef-DOCUMENT" and parts[1] == "DESCRIBES":
                doc["describes"].append(parts[2])
            else:
                doc["errors"].append("unexpected relationship " + val[:60])
        elif kind == "file":
            if tag == "SPDXID":
                cur["spdxid"] = val
            elif tag == "FileChecksum":
                if not val.startswith("SHA1: "):
                    doc["errors"].append("checksum algorithm: " + val[:30])
                cur["sha1"] = val[6:]
            elif tag == "LicenseConcluded":
                cur["concluded"] = val
                if val not in ("NOASSERTION", "NONE"):
                    try:
                        cur["tree"] = parse_expr(val)
                    except ExprError as exc:
                        doc["errors"].append(f"LicenseConcluded {val!r}: {exc}")
            elif tag == "LicenseInfoInFile":
                cur["infos"].append(val)
            elif tag == "FileCopyrightText":
                v = untext(val)
                cur["cop"] = [] if v == "NONE" else v.split("\n")
            else:
                doc["errors"].append("unknown file tag " + tag)
        elif kind == "license":
            if tag == "ExtractedText":
                cur["text"] = untext(val)
            elif tag == "LicenseName":
                cur["name"] = val
            else:
                doc["errors"].append("unknown license tag " + tag)
        else:
            doc["header"].setdefault(tag, []).append(val)
    for need in ("SPDXVersion", "DataLicense", "SPDXID", "DocumentName", "DocumentNamespace", "Creator", "Created"):
        if need not in doc["header"]:
            doc["errors"].append("missing document tag " + need)
    doc.pop("header")
    return doc


def run_case(case: dict) -> dict:
    rnd = random.Random(case["seed"])
    d = core.scratch_dir("c18-")
    ev = {"tid": case["tid"], "label": case["label"], "crash": "", "concluded": case["concluded"]}
    try:
        root = d / "root"
        p = projmodel.ensure_cls(case["p"])
        if case.get("markup"):
            # holders as people write them: an ampersand, an e-mail address in angle brackets (tag-value knows no escaping)
            p = json.loads(json.dumps(p).replace(" Author", " Author & Sons <author@example.com>").replace("2020 Same", "2020 Same <same@example.org> & Co"))
        if case.get("locale_c"):
            # holders with letters outside ASCII; file names stay ASCII (in such a locale Python cannot even name the others)
            p = json.loads(json.dumps(p).replace(" Author", " \u00c1uthor \u5c71\u7530"))
            for f_ in p["files"]:
                if not f_["pathstr"].isascii():
                    case = dict(case, locale_c=False)
        if case.get("aggregate") and not p.get("tomls") and not p.get("dep5"):
            # one REUSE.toml table that is aggregated with what every file declares itself
            p["tomls"] = [{"dir": [], "dirchars": [], "srcstr": "REUSE.toml",
                           "tables": [{"globs": [list("**")], "prec": "aggregate", "cop": ["2022 Aggregate Owner"],
                                       "lic": [{"text": "CC0-1.0", "tree": {"key": "CC0-1.0", "base": "CC0-1.0"}}]}]}]
            p = projmodel.ensure_cls(p)
        m = projmodel.materialise(p, root, rnd, outside=d / "outside")
        if case["tid"] % 4 == 1 and not case.get("locale_c"):
            # one more covered file whose name is stored DECOMPOSED (e + U+0301): its section carries exactly that name
            for f_ in list(p["files"]):
                src_ = root.joinpath(*f_["path"])
                if (f_["type"] == "text" and not f_.get("unreadable") and f_.get("ncls", "plain") == "plain" and not f_["dot"]["present"]
                        and src_.is_file() and not src_.is_symlink()):
                    g_ = json.loads(json.dumps(f_))
                    g_["path"] = f_["path"][:-1] + ["re\u0301sume\u0301 " + f_["path"][-1]]
                    g_["pathstr"] = "/".join(g_["path"])
                    g_["pchars"] = list(g_["pathstr"])
                    shutil.copyfile(src_, root.joinpath(*g_["path"]))
                    p["files"].append(g_)
                    break
        # every third text file gets DOS line endings (and one a lone CR LF inside): the checksum is over the bytes as they are
        for f_ in p["files"]:
            fp_ = root.joinpath(*f_["path"])
            if f_["type"] == "text" and fp_.is_file() and not fp_.is_symlink() and sum(map(ord, f_["pathstr"])) % 3 == 0:
                fp_.write_bytes(fp_.read_bytes().replace(b"\r\n", b"\n").replace(b"\n", b"\r\n"))
        projmodel.set_faults(m["faults"])
        args = ["--root", str(root)]
        if not case["mp"]:
            args.append("--no-multiprocessing")
        args.append("spdx")
        if case["concluded"]:
            args += ["--add-license-concluded", "--creator-person", "Jane Doe (jane@example.com)"]
        out_file = None
        if case["to_file"]:
            out_file = d / "out.spdx"
            args += ["-o", str(out_file)]
        # the tool's own process pool cannot be started from a daemonic harness worker: real subprocess
        # (some of those in an interpreter whose locale is not UTF-8: the document is UTF-8 all the same)
        in_c = bool(case.get("locale_c")) and not m["faults"]       # (injected read faults live in this process only)
        r = (core.run_reuse_subprocess(args, env=core.C_LOCALE_ENV if in_c else None) if case["mp"] or in_c
             else core.run_reuse(args))
        projmodel.set_faults(())
        if r["exc"] or r["exit"] != 0:
            ev["crash"] = (r["exc"] or r["err"] or f"exit {r['exit']}")[-500:]
            text = ""
        else:
            text = out_file.read_text() if out_file else r["out"]
        ev["doc"] = project_doc(text) if not ev["crash"] else {"files": [], "describes": [], "licenses": [], "errors": []}
        ev["p"] = p
        sha = {}
        for f in p["files"]:
            fp = root.joinpath(*f["path"])
            if fp.is_file() and not fp.is_symlink():
                sha["./" + f["pathstr"]] = hashlib.sha1(fp.read_bytes()).hexdigest()
        for s in ev["doc"]["files"]:
            sha.setdefault(s["name"], "?unknown-file")
        sha.setdefault("-", "-")
        ev["sha1"] = sha
        lt = {"-": "-"}
        for en in p["licfiles"]:
            if not en["dotlicense"]:
                lt[en["stem"]] = (root / "LICENSES" / en["rel"]).read_text()
                lt[en["name"]] = lt[en["stem"]]
        for s in ev["doc"]["licenses"]:
            lt.setdefault(s["id"], "?no-such-licence-file")
        ev["lictext"] = lt
        return ev
    finally:
        projmodel.set_faults(())
        shutil.rmtree(d, ignore_errors=True)


def run(ctx: core.Ctx) -> int:
    q = ctx.quick
    rnd = random.Random(ctx.seed)
    ctx.assumptions += [
        "SHA-1 digests are computed by the harness with hashlib on the materialised files (environment fact)",
        "'L WITH E' is one propositional symbol; 'ID+' and 'ID' are distinct symbols",
        "the document is read by a strict tag-value reader written for this check (tags, <text> blocks, one "
        "DESCRIBES relationship per file); the SPDX validity of header values is not judged",
    ]
    mc = ctx.mc("SpdxGen", "Gen_C18.cfg")     # Emit + model-level properties of Equiv
    gens = []
    for ln in mc["out"].splitlines():
        if ln.startswith('"{'):
            gens.append(json.loads(core.parse_value(ln)))
    gens += ctx.gen_json("SpdxGen", ctx.cfg_with("Sample_C18.cfg", "t", SampleN=250 if q else 6000), workers=1,
                         extra=["-seed", str(ctx.seed + 18)])
    cases = []
    for g in gens:
        label = json.dumps({"e1": [x["text"] for x in g["e1"]], "e2": [x["text"] for x in g["e2"]]})
        for conc in (True, False) if len(cases) % 3 == 0 else (True,):
            cases.append({"tid": len(cases) + 1, "p": g["p"], "label": label, "seed": ctx.seed + len(cases),
                          "concluded": conc, "mp": len(cases) % 7 == 0, "to_file": len(cases) % 5 == 0})
    lint = ctx.gen_json("Lint", "Gen_C01.cfg")
    for g in rnd.sample(lint, 250 if q else len(lint)):
        label = json.dumps({"i1": g["i1"], "i2": g["i2"], "i3": g["i3"], "inv": sorted(g["inv"])})
        cases.append({"tid": len(cases) + 1, "p": g["p"], "label": label, "seed": ctx.seed + len(cases),
                      "concluded": bool(len(cases) % 2), "mp": False, "to_file": False})
    inv = ctx.gen_json("Inventory", ctx.cfg_with("Sample_C06.cfg", "c18", SampleN=200 if q else 4000), workers=1,
                       extra=["-seed", str(ctx.seed + 181)])
    for c in c06.make_cases(inv, rnd, 1, len(cases) + 1, ctx.seed):
        cases.append({"tid": len(cases) + 1, "p": c["p"], "label": c["label"], "seed": c["seed"],
                      "concluded": bool(len(cases) % 2), "mp": False, "to_file": False})
    for k_, c_ in enumerate(cases):
        c_["markup"] = k_ % 3 == 1
        c_["aggregate"] = k_ % 4 == 2 and not c_["mp"]
        c_["locale_c"] = k_ % 9 == 4
    events = ctx.pmap(run_case, cases, chunksize=8)
    for ev in events[:: max(1, len(events) // 3)][:3]:
        ctx.samples.append({"case": json.loads(ev["label"]), "concluded": ev["concluded"],
                            "sections": [{k: s[k] for k in ("name", "concluded", "infos", "cop")} for s in ev["doc"]["files"][:3]]})
    ctx.validate("Trace_C18", "Trace_C18.cfg", events)
    for r in ctx.rejects:
        if isinstance(r.get("detail"), str):
            try:
                r["detail"] = json.loads(r["detail"])
            except ValueError:
                pass
        if r.get("event"):
            r["event"] = {"label": r["event"]["label"], "doc": r["event"]["doc"], "crash": r["event"]["crash"],
                          "concluded": r["event"]["concluded"]}
    # Workflow.tla: spdx interleaved with the modifying commands; its File sections must be what lint attributes at that point
    wf = workflow.stage(ctx, ("C18.", "crash"))
    return ctx.finish(
        evaluations=len(events) + len(wf["events"]),
        distinct_nontrivial=len({(e["label"], e["concluded"]) for e in events}),
        rule="SpdxGen: every expression tree of depth <= 1 over 4 identifiers + one WITH symbol in one file with its "
             "AND/OR dual in another (complete), TLC-sampled depth-2 trees and two-expression files, identical files with "
             "equal base names, a LicenseRef-; plus Lint.tla and Inventory.tla project states; options: with/without "
             "--add-license-concluded, stdout / -o, serial / pool",
        mc_violations=[{"clause": f"model:{v}", "kf": "", "detail": mc["out"][-2000:]} for v in mc["violated"]] + wf["mc_violations"])


def replay(ctx: core.Ctx, path: str) -> int:
    return core.generic_replay(ctx, path)
