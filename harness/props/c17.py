"""C17 - convert-dep5 produces an equivalent REUSE.toml.

TLC: Dep5Gen (every dep5 pattern up to MaxLen), Dep5Glob (R: the Debian wildcard language; product
exploration against the matcher the real code compiles for the CONVERTED glob: language equality for all
paths), ConvertDep5 (steps with fault points: dep5 goes only after REUSE.toml is complete), Trace_C17
(project level: lint before = lint after apart from the source's name; file-system event order).
Python: runs the real converter / command, binds the compiled matcher, records audit events."""
from __future__ import annotations

import json
import os
import random
import shutil
import sys
from pathlib import Path

import converttable
import core
import workflow
import projmodel
from props import c05

HEADER = ("Format: https://www.debian.org/doc/packaging-manuals/copyright-format/1.0/\nUpstream-Name: proj\n"
          "Upstream-Contact: Jane Doe <jane@example.com>\nSource: https://example.com/proj\n")


def dep5_text(paragraphs: list, header_fields: bool = False) -> str:
    # (the header paragraph may carry Copyright and License fields of its own: they attribute nothing to any file)
    out = [HEADER + ("Copyright: 1999 Package As A Whole\nLicense: Apache-2.0\n" if header_fields else "")]
    for pg in paragraphs:
        out.append("\nFiles: " + " ".join(pg["patterns"]) + "\n")
        cop = pg["cop"]
        if pg.get("layout") == "nextline":       # the usual Debian layout: the holders on continuation lines
            out.append("Copyright:\n" + "".join(" " + c + "\n" for c in cop))
        else:
            out.append("Copyright: " + cop[0] + "\n" + "".join("           " + c + "\n" for c in cop[1:]))
        # (every other paragraph carries the text of its licence below the expression, as the format allows)
        body = "\n Permission is hereby granted to whoever reads this.\n .\n Second paragraph of the text." if len(out) % 2 else ""
        out.append("License: " + pg["lic"] + body + "\n")
        if pg.get("comment"):
            out.append("Comment: " + pg["comment"] + "\n")
    return "".join(out)


def bind_case(case: dict) -> dict:
    """dep5 pattern -> converted glob (observed from toml_from_dep5) -> compiled matcher items (binding)."""
    import io
    import tomlkit
    from debian.copyright import Copyright
    from reuse.convert_dep5 import toml_from_dep5
    from reuse.global_licensing import AnnotationsItem
    pat = "".join(case["pattern"])
    try:
        text = toml_from_dep5(Copyright(io.StringIO(dep5_text([{"patterns": [pat], "cop": ["2020 Jane"], "lic": "MIT"}]))))
        conv = tomlkit.loads(text)["annotations"][0]["path"]
        item = AnnotationsItem(paths=[conv])
        impl = c05.regex_to_alts(item._paths_regex.pattern)
        return {"id": case["id"], "pattern": case["pattern"], "converted": conv, "impl": impl}
    except c05.BindingError as exc:
        return {"id": case["id"], "pattern": case["pattern"], "converted": "", "impl": None, "error": str(exc)}
    except Exception as exc:  # noqa: BLE001 - python-debian refuses the pattern: outside the domain
        return {"id": case["id"], "pattern": case["pattern"], "converted": "", "impl": None, "error": "refused: " + repr(exc)[:120]}


FILES = ["a.py", "src/a.py", "src/b.c", "src/sub/c.txt", "src/sub/deep/d.py", "docs/x.md", "docs/a.py", "a*b.txt", "q?.txt",
         "tools/gen.py", "tools/genx.py", "zz", "docs/chapter\none.txt"]       # (the last name holds a line break)
PATTERN_POOL = ["*", "src/*", "*.py", "src/*.c", "docs/*", "src/sub/*", "a.py", "tools/gen*.py", "a\\*b.txt", "q\\?.txt", "*/a.py",
                "src/*/c.txt", "*a*", "t*/g*", "zz", "src/sub/deep/d.py", "q?.txt", "src/?.c", "*.??"]

CLEAN_POOL = [p for p in PATTERN_POOL if "?" not in p.replace("\\?", "") and "*/" not in p]

_EVENTS: list = []
_AUDIT_ON = {"root": None, "installed": False}


def _hook(event, args):
    root = _AUDIT_ON["root"]
    if root is None:
        return
    try:
        if event == "open" and isinstance(args[0], (str, bytes, os.PathLike)):
            mode = args[1] if len(args) > 1 else ""
            flags = args[2] if len(args) > 2 else 0
            writing = (isinstance(mode, str) and any(c in mode for c in "wax+")) or (isinstance(flags, int) and flags & (os.O_WRONLY | os.O_RDWR))
            p = os.path.abspath(os.fspath(args[0]))
            if writing and p.startswith(root):
                _EVENTS.append({"op": "write", "path": os.path.relpath(p, root)})
        elif event in ("os.remove", "os.unlink"):
            p = os.path.abspath(os.fspath(args[0]))
            if p.startswith(root):
                _EVENTS.append({"op": "remove", "path": os.path.relpath(p, root)})
        elif event == "os.rename":
            p = os.path.abspath(os.fspath(args[1]))
            if p.startswith(root):
                _EVENTS.append({"op": "write", "path": os.path.relpath(p, root)})
    except Exception:  # noqa: BLE001
        pass


def cats(obs: dict) -> str:
    return json.dumps({k: obs[k] for k in ("missing", "bad", "unused", "deprecated", "noext", "nocop", "nolic", "readerr", "used")},
                      sort_keys=True)


def run_project(case: dict) -> dict:
    d = core.scratch_dir("c17-")
    ev = {"tid": case["tid"], "label": case["label"], "crash": "", "fault": case["fault"], "hadDep5": case["has_dep5"],
          "usesQuestionMark": any("?" in p.replace("\\?", "") for pg in case["paragraphs"] for p in pg["patterns"]),
          "usesStarSlash": any("*/" in p.replace("\\*", "") for pg in case["paragraphs"] for p in pg["patterns"])}
    try:
        root = d / "root"
        root.mkdir()
        rnd = random.Random(case["seed"])
        for i, f in enumerate(FILES):
            p = root / f
            p.parent.mkdir(parents=True, exist_ok=True)
            own = ["", "# SPDX-FileCopyrightText: 2001 In File\n", "# SPDX-License-Identifier: ISC\n",
                   "# SPDX-FileCopyrightText: 2001 In File\n# SPDX-License-Identifier: ISC\n"][(i + case["seed"]) % 4]
            p.write_text(own + "content\n")
        (root / "LICENSES").mkdir()
        for lic in ("MIT", "ISC", "0BSD", "Apache-2.0", "GPL-3.0-or-later", "GPL-2.0-with-classpath-exception"):
            (root / "LICENSES" / f"{lic}.txt").write_text("text\n")
        if case["has_dep5"]:
            (root / ".reuse").mkdir()
            (root / ".reuse" / "dep5").write_text(dep5_text(case["paragraphs"], bool(case.get("header_fields"))))
        if case["fault"] == "toml-is-dir":
            (root / "REUSE.toml").mkdir()
        base = ["--root", str(root), "--no-multiprocessing"]
        before = projmodel.lint_obs(root, args=base) if case["fault"] == "none" else json.loads(json.dumps(projmodel.EMPTY_OBS))
        snap0 = {x.relative_to(root).as_posix(): (x.read_bytes() if x.is_file() else b"<dir>") for x in root.rglob("*")}
        if not _AUDIT_ON["installed"]:
            sys.addaudithook(_hook)
            _AUDIT_ON["installed"] = True
        del _EVENTS[:]
        _AUDIT_ON["root"] = str(root) + os.sep
        try:
            if case.get("locale_c"):
                # the conversion in a fresh interpreter whose locale is not UTF-8 (the files it writes are UTF-8 all the same)
                r = core.run_reuse_subprocess([*base, "convert-dep5"], env={"LC_ALL": "C", "LANG": "C", "PYTHONUTF8": "0", "PYTHONCOERCECLOCALE": "0"})
            else:
                r = core.run_reuse([*base, "convert-dep5"], cwd=case.get("cwd") and root / case["cwd"])
        finally:
            _AUDIT_ON["root"] = None
        ev["fsev"] = [e for e in _EVENTS if e["path"] in ("REUSE.toml", ".reuse/dep5")] or [{"op": "none", "path": "-"}]
        snap1 = {x.relative_to(root).as_posix(): (x.read_bytes() if x.is_file() else b"<dir>") for x in root.rglob("*")}
        ev["exit"] = r["exit"]
        ev["crash"] = (r["exc"] or "")[-400:]
        ev["treeUnchanged"] = snap0 == snap1
        ev["dep5After"] = (root / ".reuse" / "dep5").is_file() and snap1.get(".reuse/dep5") == snap0.get(".reuse/dep5")
        ev["tomlAfter"] = (root / "REUSE.toml").is_file()
        after = projmodel.lint_obs(root, args=base) if (r["exit"] == 0 and case["fault"] == "none") else before
        if after["crash"] and not ev["crash"]:
            ev["crash"] = "lint after conversion: " + after["crash"]
        ev["before"] = before["files"] or [{"path": "-", "items": []}]
        ev["after"] = after["files"] or [{"path": "-", "items": []}]
        ev["catsBefore"], ev["catsAfter"] = cats(before), cats(after)
        return ev
    finally:
        shutil.rmtree(d, ignore_errors=True)


def run(ctx: core.Ctx) -> int:
    q = ctx.quick
    rnd = random.Random(ctx.seed)
    ctx.assumptions += [
        "dep5 patterns use the Debian copyright-format wildcard language with well-formed escapes (\\*, \\?, \\\\) and no blanks",
        "the converted glob is observed from the real toml_from_dep5; the REUSE.toml side is the matcher the real "
        "AnnotationsItem compiles for it (parsed into automaton items, as in C05)",
        "file-system event order comes from a sys.addaudithook shim (open for writing, remove)",
    ]
    mcb = ctx.mc("ConvertDep5", "MC_C17b.cfg")
    mc_viol = [{"clause": f"model:{v}", "kf": "", "detail": mcb["out"][-2000:]} for v in mcb["violated"]]
    states = ctx.gen("Dep5Gen", ctx.cfg_with("Gen_C17.cfg", "t", MaxLen=4 if q else 5))
    pats = [s["g"] for s in states if s["wf"] and s["g"]]
    ctx.exhaustive = True
    for _ in range(300 if q else 5000):
        n = rnd.randint(5, 10)
        g, i = [], 0
        while len(g) < n:
            c = rnd.choice(["a", "b", ".", "/", "*", "?", "\\", "*", "/", "a"])
            if c == "\\":
                g += ["\\", rnd.choice(["*", "?", "\\"])]
            else:
                g.append(c)
        pats.append(g)
    cases = [{"id": i + 1, "pattern": p} for i, p in enumerate(pats)]
    bound = ctx.pmap(bind_case, cases)
    usable = [b for b in bound if b["impl"] is not None]
    ctx.notes["patterns"] = len(cases)
    ctx.notes["binding_failures"] = len([b for b in bound if b["impl"] is None and not str(b.get("error", "")).startswith("refused")])
    ctx.notes["patterns_refused_by_dep5_parser"] = len([b for b in bound if str(b.get("error", "")).startswith("refused")])
    by_id = {b["id"]: b for b in bound}
    shards = [usable[i::8] for i in range(8)] if len(usable) > 1500 else [usable]
    for si, sh in enumerate(shards):
        if not sh:
            continue
        f = ctx.scratch / f"c17-cases-{si}.ndjson"
        with open(f, "w") as fh:
            for b in sh:
                fh.write(json.dumps({"id": b["id"], "pattern": b["pattern"], "converted": b["converted"], "impl": b["impl"]}) + "\n")
        r = ctx.mc("Dep5Glob", "MC_C17.cfg", env={"CASES_FILE": str(f)}, tag=f"dep5-{si}", workers=max(2, core.NCPU // 2))
        seen = set()
        for v in core.printed_tuples(r["out"], "REJECT"):
            if v[1] in seen:
                continue
            seen.add(v[1])
            mc_viol.append({"clause": v[3], "kf": v[4], "tid": v[1],
                            "detail": {"dep5_pattern": "".join(v[5][0]), "written_to_REUSE.toml": v[5][1], "witness_path": "".join(v[5][2])},
                            "event": {"pattern": v[5][0]}})
        if r["violated"]:
            mc_viol.append({"clause": "spec:" + ",".join(r["violated"]), "kf": "", "detail": r["out"][-1500:]})
    # project level
    pcases = []
    npj = 150 if q else 2500
    for j in range(npj):
        pgs = []
        for k in range(rnd.randint(1, 3)):
            pool = PATTERN_POOL if j % 7 == 3 else CLEAN_POOL      # '?' and '*/' patterns (open findings) only in every 7th project
            pgs.append({"patterns": rnd.sample(pool, rnd.randint(1, 2)),
                        "cop": [f"20{10 + k} Holder {chr(65 + k)}"] + (["2019 Second Line <s@example.org>"] if rnd.random() < 0.3 else []),
                        "lic": rnd.choice(["MIT", "0BSD", "Apache-2.0", "MIT OR 0BSD", "GPL-3.0-or-later", "GPL-2.0-with-classpath-exception OR MIT"]),
                        "comment": "a comment" if rnd.random() < 0.3 else None, "layout": "nextline" if (j + k) % 5 == 2 else "inline"})
        if j % 10 == 7:      # a later paragraph repeats an earlier, non-adjacent one
            pgs = [pgs[0], {"patterns": ["src/*", "tools/gen*.py"], "cop": ["2015 Bob"], "lic": "0BSD"},
                   {"patterns": ["src/sub/*", "tools/genx.py"], "cop": pgs[0]["cop"], "lic": pgs[0]["lic"], "comment": pgs[0].get("comment"),
                    "layout": pgs[0].get("layout", "inline")}]
        pcases.append({"tid": len(pcases) + 1, "paragraphs": pgs, "has_dep5": True, "fault": "none", "seed": ctx.seed + j,
                       "cwd": "src" if j % 4 == 0 else None, "header_fields": j % 6 == 1,
                       "label": json.dumps({"paragraphs": [[pg["patterns"], pg["lic"], pg.get("layout", "inline")] for pg in pgs], "header_fields": j % 6 == 1})})
    # holders with non-ASCII letters, converted in an interpreter whose locale is not UTF-8
    for j in range(6 if q else 60):
        pgs = [{"patterns": rnd.sample(CLEAN_POOL, 1), "cop": ["2020 Jos\u00e9 M\u00fcller", "2021 \u5c71\u7530 \u592a\u90ce"][: 1 + j % 2],
                "lic": rnd.choice(["MIT", "0BSD"]), "comment": "caf\u00e9" if j % 3 == 0 else None}]
        pcases.append({"tid": len(pcases) + 1, "paragraphs": pgs, "has_dep5": True, "fault": "none", "seed": ctx.seed + 7000 + j, "locale_c": True,
                       "label": json.dumps({"locale": "C", "paragraphs": [[pg["patterns"], pg["lic"]] for pg in pgs]})})
    pcases.append({"tid": len(pcases) + 1, "paragraphs": [], "has_dep5": False, "fault": "none", "seed": 1, "label": '"no dep5"'})
    for fault in ("toml-is-dir",):
        for j in range(3):
            pcases.append({"tid": len(pcases) + 1, "paragraphs": [{"patterns": ["*"], "cop": ["2020 A"], "lic": "MIT"}], "has_dep5": True,
                           "fault": fault, "seed": j, "label": json.dumps({"fault": fault})})
    events = ctx.pmap(run_project, pcases, chunksize=8)
    for ev in events[:: max(1, len(events) // 3)][:3]:
        ctx.samples.append({"case": json.loads(ev["label"]), "exit": ev["exit"], "fsev": ev["fsev"], "after": ev["after"][:3]})
    ctx.samples.append({"pattern_cases": [{"dep5": "".join(b["pattern"]), "converted": b["converted"]} for b in usable[:: max(1, len(usable) // 6)][:6]]})
    ctx.validate("Trace_C17", "Trace_C17.cfg", events)
    for r in ctx.rejects:
        if isinstance(r.get("detail"), str):
            try:
                r["detail"] = json.loads(r["detail"])
            except ValueError:
                pass
        if r.get("event"):
            r["event"] = {k: r["event"][k] for k in ("label", "exit", "fsev", "crash", "dep5After", "tomlAfter")}
    # Workflow.tla: convert-dep5 interleaved with annotate / download / lint: where the declaration lives, what files are seen to declare
    wf = workflow.stage(ctx, ("C17.", "crash"))
    mc_viol = list(mc_viol) + wf["mc_violations"]
    # ConvertTable.tla: the preconditions of the command (what .reuse/dep5 is x what stands where REUSE.toml goes), replayed
    cv = converttable.stage(ctx, ("C17.", "crash"))
    mc_viol += cv["mc_violations"]
    return ctx.finish(
        evaluations=len(usable) + len(events) + len(wf["events"]) + len(cv["events"]),
        distinct_nontrivial=len({"".join(b["pattern"]) for b in usable if any(c in "*?\\" for c in b["pattern"])}),
        rule="languages: every well-formed dep5 pattern over {a . / * ? \\} up to MaxLen (TLC) + seeded longer ones, each "
             "compared with the compiled matcher of its converted glob for ALL paths (product exploration); projects: 1-3 "
             "paragraphs x 1-2 patterns from a pool (incl. escaped and '?' patterns, repeated non-adjacent paragraphs, multi-"
             "line copyright, comments) over 12 files with varying in-file information, lint before / after; no-dep5 and "
             "write-failure runs; non-trivial = patterns containing a wildcard or an escape",
        mc_violations=mc_viol)


def replay(ctx: core.Ctx, path: str) -> int:
    return core.generic_replay(ctx, path)
