"""C20 - copyright notices are built and merged without losing holders or years.

TLC: Copyright.tla (R1 Text, R2 MergeOK, M = MMergeAll), CopyrightGen.tla (all notice sets up to
MaxSet, TLC-sampled larger ones; M |= R2); Trace_C20 judges what make_copyright_line /
merge_copyright_lines / `reuse annotate [--merge-copyrights]` + lint did."""
from __future__ import annotations

import json
import random
import re
import shutil

import core

PFX = {"spdx": "SPDX-FileCopyrightText:", "spdx_c": "SPDX-FileCopyrightText: (C)",
       "spdx_symbol": "SPDX-FileCopyrightText: ©", "spdx_string": "SPDX-FileCopyrightText: Copyright",
       "spdx_string_c": "SPDX-FileCopyrightText: Copyright (C)", "spdx_string_symbol": "SPDX-FileCopyrightText: Copyright ©",
       "string": "Copyright", "string_c": "Copyright (C)", "string_symbol": "Copyright ©", "symbol": "©"}
HOLDERS = ["Jane Doe", "ACME, Inc.", "Jane Doe <jane@example.com>", "Example Org e.V. <https://example.org>",
           "Jürgen Müller", "O'Reilly & Sons", "3M Company", "the authors of foo-bar (see AUTHORS)",
           "Free Software Foundation Europe e.V.", "山田 太郎", "Free Copyright Society", "The © Group", "No (c) Nonsense Ltd",
           "Carmen Bianca Bakker", "cURL maintainers", "(ACME) Holdings, Inc."]


NOTICE_LIKE_HOLDERS = ["Copyright Clearance Center, Inc.", "\u00a9 Software GmbH", "Copyright (C) Collective"]


def asc(s: str) -> str:
    return "".join(c if ord(c) < 128 else "<U+%04X>" % ord(c) for c in s)


def parse_notice(line: str) -> dict:
    """Tool-independent tokenizer: documented prefix (longest match), optional year or range, holder."""
    best = None
    for k, v in PFX.items():
        if line.startswith(v + " ") and (best is None or len(v) > len(PFX[best])):
            best = k
    if best is None:
        return {"pfx": "?", "y1": 0, "y2": 0, "holder": asc(line)}
    rest = line[len(PFX[best]) + 1:]
    m = re.match(r"(\d{4})(?: ?- ?(\d{4}))?,? +", rest)
    y1 = y2 = 0
    if m:
        y1 = int(m.group(1))
        y2 = int(m.group(2) or m.group(1))
        rest = rest[m.end():]
    return {"pfx": best, "y1": y1, "y2": y2, "holder": asc(rest)}


def concrete(n: dict, hmap: dict, tight: bool = False) -> str:
    dash = "-" if tight else " - "          # both spellings of a range are notices people write
    years = "" if n["y1"] == 0 else (str(n["y1"]) if n["y1"] == n["y2"] else f"{n['y1']}{dash}{n['y2']}")
    return PFX[n["pfx"]] + (" " + years if years else "") + " " + hmap.get(n["holder"], n["holder"])


def lint_notices(root, name: str = "f.py") -> list:
    r = core.run_reuse(["--root", str(root), "--no-multiprocessing", "lint", "--json"])
    rep = json.loads(r["out"])
    f = [x for x in rep["files"] if x["path"] == name]
    return sorted(c["value"] for c in f[0]["copyrights"]) if f else []


def _run(case: dict, args: list) -> dict:
    """The command in-process, or - for cases marked locale_c whose command line is ASCII - in a fresh interpreter whose
    locale is not UTF-8 (the files reuse writes are UTF-8 all the same)."""
    if case.get("locale_c") and all(str(a).isascii() for a in args):
        return core.run_reuse_subprocess(args, env=core.C_LOCALE_ENV)
    return core.run_reuse(args)


def run_case(case: dict) -> dict:
    from reuse.copyright import make_copyright_line, merge_copyright_lines
    ev = {"tid": case["tid"], "label": case["label"], "kind": case["kind"], "crash": ""}
    d = core.scratch_dir("c20-")
    try:
        root = d / "root"
        root.mkdir()
        f = root / "f.py"
        if case["kind"] == "make":
            n = case["n"]
            holder = case["holder"]
            years = case["years"]
            year_arg = None if not years else (years[0] if len(years) == 1 else f"{min(years)} - {max(years)}")
            ev["n"] = dict(n, holder=asc(holder))
            ev["line"] = asc(make_copyright_line(holder, year=year_arg, copyright_prefix=n["pfx"].replace("_", "-")))
            f.write_text("x = 1\n")
            args = ["--root", str(root), "annotate", "--copyright", holder, "--license", "MIT",
                    "--copyright-prefix", n["pfx"].replace("_", "-")]
            if years:
                for y in years:
                    args += ["--year", y]
            else:
                args.append("--exclude-year")
            r = _run(case, [*args, str(f)])
            if r["exc"] or r["exit"] != 0:
                ev["crash"] = (r["exc"] or r["out"] + r["err"])[-400:]
            back = lint_notices(root)
            ev["readback"] = [asc(x) for x in back]
            ev["parsed"] = parse_notice(back[0]) if len(back) == 1 else {"pfx": "?", "y1": 0, "y2": 0, "holder": "?"}
        elif case["kind"] == "verbatim":
            given = case["given"]
            ev["given"] = asc(given)
            ev["line"] = asc(make_copyright_line(given, year="2024", copyright_prefix="spdx"))
            f.write_text("x = 1\n")
            r = core.run_reuse(["--root", str(root), "annotate", "--copyright", given, "--license", "MIT", "--year", "2024", str(f)])
            if r["exc"] or r["exit"] != 0:
                ev["crash"] = (r["exc"] or r["out"] + r["err"])[-400:]
            ev["readback"] = [asc(x) for x in lint_notices(root)]
        else:
            S = case["S"]
            hmap = case["hmap"]
            tight = bool(case.get("tight"))
            lines = [concrete(n, hmap, tight) for n in S]
            ev["S"] = [dict(n, holder=asc(hmap.get(n["holder"], n["holder"]))) for n in S]
            if case["via"] == "api":
                out = merge_copyright_lines(set(lines))
            else:
                # all but the last notice are in the file already; the last one is requested with --merge-copyrights
                *old, new = S
                if case["via"] == "cli-new":
                    # a file without any header; every notice is given on the command line, as a notice
                    f.write_text("x = 1\n")
                    # two more files without a header in the same invocation: each of the three gets every notice
                    others = [root / "a_first.py", root / "z_last.py"] if case["tid"] % 2 else []
                    for o_ in others:
                        o_.write_text("y = 2\n")
                    args = ["--root", str(root), "annotate", "--merge-copyrights", "--exclude-year", "--license", "MIT"]
                    for n in S:
                        args += ["--copyright", concrete(n, hmap, tight)]
                    r = _run(case, [*args, str(f), *map(str, others)])
                    if r["exc"] or r["exit"] != 0:
                        ev["crash"] = (r["exc"] or r["out"] + r["err"])[-400:]
                    per_file = [lint_notices(root, x.name) for x in [f, *others]]
                    ev["O"] = [parse_notice(x) for x in sorted(min(per_file, key=len))]      # (the file that got least)
                    ev["via"] = case["via"]
                    return ev
                if case["via"] == "cli-noadd":
                    old, new = S, None            # every notice is in the file already; the run adds a licence only
                f.write_text("".join("# " + concrete(n, hmap, tight) + "\n" for n in old) + "# SPDX-License-Identifier: MIT\n\nx = 1\n"
                             if old else "x = 1\n")
                if new is None:
                    args = ["--root", str(root), "annotate", "--merge-copyrights", "--license", "0BSD"]
                else:
                    args = ["--root", str(root), "annotate", "--merge-copyrights", "--copyright", hmap.get(new["holder"], new["holder"]),
                            "--copyright-prefix", new["pfx"].replace("_", "-")]
                if new is None:
                    pass
                elif new["y1"] == 0:
                    args.append("--exclude-year")
                elif new["y1"] == new["y2"]:
                    args += ["--year", str(new["y1"])]
                else:
                    args += ["--year", str(new["y2"]), "--year", str(new["y1"])]
                r = _run(case, [*args, str(f)])
                if r["exc"] or r["exit"] != 0:
                    ev["crash"] = (r["exc"] or r["out"] + r["err"])[-400:]
                out = lint_notices(root)
            ev["O"] = [parse_notice(x) for x in sorted(out)]
            ev["via"] = case["via"]
        return ev
    finally:
        shutil.rmtree(d, ignore_errors=True)


def run(ctx: core.Ctx) -> int:
    q = ctx.quick
    rnd = random.Random(ctx.seed)
    ctx.assumptions += [
        "the ten prefix texts are those of the reuse-annotate manual page; non-ASCII characters are encoded as <U+XXXX> "
        "on both sides before TLC sees them",
        "holders do not start with four digits and are not themselves notices (except in the 'verbatim' cases)",
        "notices are tokenised by a reader written for this check (documented prefix, optional year or range, holder)",
        "which of several equally frequent prefixes a merged line gets is not constrained",
    ]
    mc = ctx.mc("CopyrightGen", ctx.cfg_with("MC_C20.cfg", "t", MaxSet=3 if q else 4), timeout=7200)
    mc_viol = [{"clause": f"model:{v}", "kf": "", "detail": mc["out"][-2500:]} for v in mc["violated"]]
    cases = []
    # R1: the full product prefix x year form x holder
    yforms = [[], ["2024"], ["1999"], ["2016", "2022"], ["2021", "2017"], ["2016", "2022", "2019"]]
    for p in PFX:
        for yi, ys in enumerate(yforms):
            for h in (HOLDERS if not q else rnd.sample(HOLDERS, 4)):
                yints = sorted(int(y) for y in ys)
                n = {"pfx": p, "y1": yints[0] if yints else 0, "y2": yints[-1] if yints else 0, "holder": h}
                cases.append({"kind": "make", "n": n, "holder": h, "years": ys,
                              "label": json.dumps({"make": [p, ys, asc(h)]})})
    for given in ["Copyright (C) 2020 Jane Doe", "SPDX-FileCopyrightText: 2019 ACME, Inc.", "© 2001-2003 Jane Doe",
                  "Copyright 2020 - 2022 Example Org", "SPDX-FileCopyrightText: Copyright © Jane Doe",
                  "Copyright © 1999, Jane Doe <jane@example.com>"]:
        cases.append({"kind": "verbatim", "given": given, "label": json.dumps({"verbatim": asc(given)})})
    # R2: notice sets from TLC
    sets = ctx.gen_json("CopyrightGen", "Gen_C20.cfg")
    ctx.exhaustive = True
    sets += ctx.gen_json("CopyrightGen", ctx.cfg_with("Sample_C20.cfg", "t", SampleN=400 if q else 8000), workers=1,
                         extra=["-seed", str(ctx.seed + 20)])
    for i, g in enumerate(sets):
        S = g["S"]
        hs = rnd.sample(HOLDERS, 3)
        hmap = {"H1": hs[0], "H2": hs[1], "H3": hs[2]}
        # (without a year between prefix and name such a notice IS another documented prefix + a shorter name: outside the domain)
        notice_like = i % 5 == 2 and all(n["y1"] > 0 for n in S if n["holder"] == "H1")
        if notice_like:     # a holder whose name begins like a notice: only in notices that exist already (merged, never built from the name)
            hmap["H1"] = NOTICE_LIKE_HOLDERS[(i // 5) % len(NOTICE_LIKE_HOLDERS)]
        for via in ("api", "cli", "cli-noadd", "cli-new"):
            if notice_like and via in ("cli", "cli-new") and any(n["holder"] == "H1" for n in S):
                continue
            if via == "cli" and (i % 2 or any(hmap.get(n["holder"]) == hmap.get(S[-1]["holder"]) and False for n in S)):
                continue
            if via == "cli-noadd" and (i % 3 or len(S) < 2):
                continue
            if via == "cli-new" and (i % 3 != 1 or len(S) < 2):
                continue
            S2 = list(S)
            rnd.shuffle(S2)
            tight = (i + len(cases)) % 3 == 0
            cases.append({"kind": "merge", "S": S2, "hmap": hmap, "via": via, "tight": tight,
                          "label": json.dumps({"merge": [[n["pfx"], n["y1"], n["y2"], n["holder"]] for n in S2], "via": via,
                                               "ranges": "YYYY-YYYY" if tight else "YYYY - YYYY"})})
    for i, c in enumerate(cases):
        c["tid"] = i + 1
        c["locale_c"] = i % 8 == 3 and c["kind"] != "verbatim" and c.get("via") != "api"
    ctx.notes["cases_in_a_C_locale_interpreter"] = sum(1 for c in cases if c["locale_c"])
    events = ctx.pmap(run_case, cases, chunksize=32)
    for ev in events[:: max(1, len(events) // 4)][:4]:
        ctx.samples.append({k: v for k, v in ev.items() if k not in ("tid",)})
    ctx.validate("Trace_C20", "Trace_C20.cfg", events)
    for r in ctx.rejects:
        if isinstance(r.get("detail"), str):
            try:
                r["detail"] = json.loads(r["detail"])
            except ValueError:
                pass
    return ctx.finish(
        evaluations=len(events),
        distinct_nontrivial=len({e["label"] for e in events}),
        rule="R1: 10 prefixes x 6 year forms (none, one, several --year in any order) x holder grammar (names, "
             "organisations with punctuation, e-mail / URL suffixes, non-ASCII), via make_copyright_line and via "
             "annotate + lint; verbatim notices; R2: every set of up to 2 notices over 4 prefixes x 5 year forms x 2 holders "
             "(TLC, complete) and TLC-sampled sets of up to 5 over all prefixes, via merge_copyright_lines and via "
             "annotate --merge-copyrights + lint",
        mc_violations=mc_viol)


def replay(ctx: core.Ctx, path: str) -> int:
    return core.generic_replay(ctx, path)
