"""C03 - exactly the covered files are examined.

TLC: CoveredGen.tla enumerates nodes (directory context x name class x type x VCS wish), checks
M |= R at model level, prints the cases.  Python invents names of the classes, builds the tree
(and a real Git repository), asks `git check-ignore` which paths Git ignores (environment oracle),
observes the examined set through lint --json, spdx, lint-file and annotate -r; Trace_Project
(C03 clauses, Project!CoverReq) judges."""
from __future__ import annotations

import json
import os
import random
import shutil
import subprocess
from pathlib import Path

import core
import projmodel

NAMES = {
    "plain": ["main.py", "util.c", "notes.txt", "Makefile", "data.json", "index.html", "mod.rs"],
    "LICENSE": ["LICENSE"], "LICENSE-suffix": ["LICENSE-MIT", "LICENSE-APACHE-2.0"],
    "LICENSE.suffix": ["LICENSE.txt", "LICENSE.md"], "LICENCE": ["LICENCE"], "LICENCE-suffix": ["LICENCE-GPL"],
    "LICENCE.suffix": ["LICENCE.rst", "LICENCE.txt"], "COPYING": ["COPYING"], "COPYING-suffix": ["COPYING-LGPL"],
    "COPYING.suffix": ["COPYING.md", "COPYING.LESSER"], "dot-license": ["x.py.license", "image.png.license", ".license"],
    "spdx": ["a.spdx", "project.spdx"], "spdx.rdf": ["a.spdx.rdf"], "spdx.json": ["sbom.spdx.json"],
    "spdx.xml": ["a.spdx.xml"], "spdx.yml": ["a.spdx.yml"], "spdx.yaml": ["a.spdx.yaml"], "REUSE.toml": ["REUSE.toml"],
    "LICENSEX": ["LICENSEX", "LICENSE_MIT", "LICENSEE.txt", "LICENSES.txt"], "XLICENSE": ["MYLICENSE", "UNLICENSE", "A-LICENSE.txt"],
    "COPYINGX": ["COPYINGS", "COPYING_LIB", "COPYINGv3"], "license-lower": ["license", "license.txt", "copying", "Licence.md"],
    "spdxx": ["a.spdxx", "b.spdx2"], "x.spdx.txt": ["a.spdx.txt", "a.spdx.jsonx", "a.spdx.yl", "a.spdx-json", "b.spdxXyml", "c.spdx_rdf"],
    "license-ext-other": ["x.licenses", "x.license.bak", "x.licence"], "toml-other": ["reuse.toml", "REUSE.toml.bak", "MYREUSE.toml"],
    "hidden": [".hidden", ".env"], "space": ["my file.py", " lead.txt"], "unicode": ["héllo.py", "文件.txt"],
    "git-file": [".git"], "hgtags": [".hgtags"],
}
DIRS = {"plain": ["src", "pkg", "lib dir", "docs"], "LICENSES": ["LICENSES"], ".reuse": [".reuse"], ".git": [".git"],
        ".hg": [".hg"], ".sl": [".sl"], "subprojects": ["subprojects"], "symlinkdir": ["lnk", "lnk2"],
        "ignoreddir": ["build", "out"], "untrackeddir": ["scratch", "tmpdir"], "submodule": ["sm", "vendor-sm", "lib.js", "docs.v1.2"]}
# names that END IN A LINE BREAK are none of the excluded names (and a directory 'LICENSES\n' is not LICENSES/)
NAMES_NL = {"LICENSEX": ["LICENSE\n", "LICENCE.txt\n"], "COPYINGX": ["COPYING\n", "COPYING.md\n"], "spdxx": ["a.spdx\n", "a.spdx.json\n"],
            "license-ext-other": ["x.py.license\n"], "toml-other": ["REUSE.toml\n"], "hidden": [".hgtags\n", ".git\n"]}
DIRS_NL = ["LICENSES\n", ".reuse\n", ".hg\n", "src"]
HEADER = "# SPDX-FileCopyrightText: 2020 Some One\n# SPDX-License-Identifier: MIT\n"


def build_project(g: dict, rnd: random.Random) -> dict:
    """Abstract nodes -> Project-shaped record with concrete names (files only; C03 clauses)."""
    files, used, gitignore, tracked, submodules, untracked_dirs = [], set(), [], [], set(), set()
    gitignore_global = []
    dirname = {}
    dirset = set()
    lic_stems = set()
    for ni, n in enumerate(g["nodes"]):
        comps = []
        for depth, c in enumerate(n["ctx"]):
            key = (tuple(n["ctx"][:depth + 1]))
            if key not in dirname:
                pool = DIRS[c] if not (g.get("nl") and c == "plain") else DIRS_NL
                dirname[key] = pool[rnd.randrange(len(pool))] if c in ("plain", "submodule") else pool[0]
            comps.append(dirname[key])
            if c == "ignoreddir":
                gitignore.append("/" + "/".join(comps) + "/")
            if c == "submodule":
                submodules.add("/".join(comps))
            if c == "untrackeddir":
                untracked_dirs.add("/".join(comps))
        pool = (NAMES_NL.get(n["ncls"]) if g.get("nl") else None) or NAMES[n["ncls"]]
        name = pool[rnd.randrange(len(pool))]
        path = comps + [name]
        if "/".join(path) in used:
            alt = [x for x in pool if "/".join(comps + [x]) not in used]
            if not alt:
                continue
            name = alt[0]
            path = comps + [name]
        pathstr = "/".join(path)
        prefixes = {"/".join(path[:k]) for k in range(1, len(path))}
        if pathstr in dirset or prefixes & used or (g["git"] and pathstr == ".git"):
            continue          # a file where a directory is needed (or vice versa): not a tree
        if "LICENSES" in n["ctx"]:
            stem = name[: name.rfind(".")] if name.rfind(".") > 0 else name
            key = ("/".join(comps[: n["ctx"].index("LICENSES") + 1]), stem)
            if key in lic_stems:
                continue      # two LICENSES/ entries resolving to one identifier: outside the domain (the tool refuses)
            lic_stems.add(key)
        used.add(pathstr)
        dirset |= prefixes
        want = n.get("want", "none")
        if g["git"]:
            if want in ("tracked", "ignore-but-tracked"):
                tracked.append(pathstr)
            if want in ("ignore-exact", "ignore-but-tracked"):
                gitignore.append("/" + pathstr.replace(" ", "\\ "))
            elif want == "ignore-name":
                # (every other such rule lives in the USER's ignore file, $HOME/.config/git/ignore, not in the repository)
                (gitignore if ni % 2 else gitignore_global).append(name.replace(" ", "\\ "))
            elif want == "ignore-then-negate":
                gitignore.append("/" + pathstr.replace(" ", "\\ "))
                gitignore.append("!/" + pathstr.replace(" ", "\\ "))
        ftype = "text" if n["ncls"] == "REUSE.toml" else n["type"]     # a REUSE.toml must stay valid configuration
        info = {"cop": ["SPDX-FileCopyrightText: 2020 Some One"],
                "lic": [{"text": "MIT", "tree": {"key": "MIT", "base": "MIT"}}], "bad": False}
        files.append({"path": path, "pathstr": pathstr, "pchars": list(pathstr), "ncls": n["ncls"], "type": ftype,
                      "anc": n["anc"], "ignored": False, "unreadable": False, "cov": True, "own": info,
                      "dot": {"present": False, "cop": [], "lic": [], "bad": False},
                      "want": want, "untrackedDir": False, "ctx": n["ctx"]})
    if g["git"] and rnd.random() < 0.5:
        # in half of the repositories every plain directory also holds a tracked covered file, so that ignore rules meet
        # tracked directories (otherwise most ignored files sit in wholly untracked directories)
        for f in list(files):
            for k in range(1, len(f["path"])):
                if not all(c == "plain" for c in f["ctx"][:k]):
                    break
                comp = "/".join(f["path"][:k]) + "/zz_tracked_companion.py"
                if comp in used or comp in dirset:
                    continue
                used.add(comp)
                tracked.append(comp)
                files.append({"path": f["path"][:k] + ["zz_tracked_companion.py"], "pathstr": comp, "pchars": list(comp),
                              "ncls": "plain", "type": "text", "anc": f["anc"][:k], "ignored": False, "unreadable": False,
                              "cov": True, "own": {"cop": ["SPDX-FileCopyrightText: 2020 Some One"],
                                                   "lic": [{"text": "MIT", "tree": {"key": "MIT", "base": "MIT"}}], "bad": False},
                              "dot": {"present": False, "cop": [], "lic": [], "bad": False},
                              "want": "tracked", "untrackedDir": False, "ctx": f["ctx"][:k]})
    return {"files": files, "licfiles": [], "tomls": [], "dep5": [], "opts": g["opts"], "cls": {"MIT": "cur"},
            "git": g["git"], "_gitignore": gitignore, "_gitignore_global": gitignore_global, "_tracked": tracked, "_submodules": sorted(submodules),
            "_untracked_dirs": sorted(untracked_dirs)}


def _git(root, *args, check=True):
    env = dict(os.environ, GIT_CONFIG_GLOBAL="/dev/null", GIT_CONFIG_SYSTEM="/dev/null", HOME=str(root.parent))
    return subprocess.run(["git", "-c", "user.name=t", "-c", "user.email=t@example.com", "-c", "init.defaultBranch=main",
                           "-c", "advice.detachedHead=false", *args], cwd=root, env=env, capture_output=True, text=True,
                          check=check)


def materialise_c03(p: dict, root: Path, outside: Path):
    root.mkdir(parents=True)
    if p["git"]:
        _git(root, "init", "-q")
    for f in p["files"]:
        path = root.joinpath(*f["path"])
        # symlinked directories
        for k, c in enumerate(f["ctx"]):
            if c == "symlinkdir":
                link = root.joinpath(*f["path"][:k + 1])
                if not link.exists() and not link.is_symlink():
                    tgt = outside / ("dir-" + "-".join(f["path"][:k + 1]))
                    tgt.mkdir(parents=True, exist_ok=True)
                    link.parent.mkdir(parents=True, exist_ok=True)
                    os.symlink(tgt, link)
            if c == "submodule" and p["git"]:
                sm = root.joinpath(*f["path"][:k + 1])
                if not (sm / ".git").exists():
                    sm.mkdir(parents=True, exist_ok=True)
                    _git(sm, "init", "-q")
        path.parent.mkdir(parents=True, exist_ok=True)
        t = f["type"]
        if path.exists() or path.is_symlink():
            continue
        if t == "empty":
            path.write_bytes(b"")
        elif t == "special":           # a unix socket: neither regular file nor directory (opening it fails at once, no blocking)
            import socket
            sk = socket.socket(socket.AF_UNIX)
            cwd0 = os.getcwd()
            try:
                os.chdir(path.parent)          # (socket paths are limited to ~100 bytes)
                sk.bind(path.name)
            finally:
                os.chdir(cwd0)
                sk.close()
        elif t == "symlink":
            tgt = outside / ("file-" + "-".join(f["path"]).replace("/", "_"))
            tgt.parent.mkdir(parents=True, exist_ok=True)
            tgt.write_text(HEADER + "x = 1\n")
            os.symlink(tgt, path)
            # one abstract class, three concrete shapes: a live link, a dangling one, a link to a directory
            shape = sum(map(ord, "/".join(f["path"]))) % 3
            if shape == 1:
                tgt.unlink()
            elif shape == 2:
                tgt.unlink()
                tgt.mkdir()
                (tgt / f"inside-{abs(hash(tgt.name)) % 10**8}.py").write_text("print('reached through a link')\n")
        elif t == "binary":
            path.write_bytes(b"\x89BIN\x00\x01\x02\xff\xfe\x00" + os.urandom(24))
        elif f["ncls"] == "REUSE.toml":
            path.write_text("version = 1\n")
        else:
            path.write_text(HEADER + "x = 1\n")
    if p["git"]:
        if p["_gitignore"]:
            (root / ".gitignore").write_text("\n".join(p["_gitignore"]) + "\n")
        if p.get("_gitignore_global"):
            (root.parent / ".config" / "git").mkdir(parents=True, exist_ok=True)
            (root.parent / ".config" / "git" / "ignore").write_text("\n".join(p["_gitignore_global"]) + "\n")
        if p["_submodules"]:
            (root / ".gitmodules").write_text("".join(
                f'[submodule "{s}"]\n\tpath = {s}\n\turl = https://example.com/{s}.git\n' for s in p["_submodules"]))
        add = [t for t in p["_tracked"] if not any(t.startswith(s + "/") for s in p["_submodules"])
               and not t.startswith(".git/")]
        if add:
            _git(root, "add", "-f", "--", *add, check=False)
        for name in (".gitignore", ".gitmodules"):
            if (root / name).exists():
                _git(root, "add", "-f", "--", name, check=False)


def git_facts(p: dict, root: Path):
    """Environment oracle: which paths does Git itself call ignored; which directories hold no tracked file."""
    paths = [f["pathstr"] for f in p["files"]
             if not f["pathstr"].startswith(".git/") and not any(f["pathstr"].startswith(s + "/") for s in p["_submodules"])
             and "symlinkdir" not in f["ctx"]]
    ignored = set()
    if paths:
        env = dict(os.environ, GIT_CONFIG_GLOBAL="/dev/null", GIT_CONFIG_SYSTEM="/dev/null", HOME=str(root.parent))
        r = subprocess.run(["git", "check-ignore", "-z", "--stdin"], cwd=root, env=env, capture_output=True,
                           input="\0".join(paths).encode() + b"\0")
        if r.returncode not in (0, 1):
            raise core.MachineryError("git check-ignore failed: " + r.stderr.decode()[:300])
        ignored = {x for x in r.stdout.decode().split("\0") if x}
    tracked = {x for x in _git(root, "ls-files", "-z").stdout.split("\0") if x}
    for f in p["files"]:
        f["ignored"] = f["pathstr"] in ignored        # covers rules on ancestor directories as well
        for a in f["anc"]:
            a["ignored"] = False
        comps = f["path"]
        f["untrackedDir"] = any(
            not any(t.startswith("/".join(comps[:k]) + "/") for t in tracked) for k in range(1, len(comps)))


def observe(root: Path, opts: dict, route: str) -> dict:
    glob = ["--root", str(root), "--no-multiprocessing"]
    if opts["submodules"]:
        glob.append("--include-submodules")
    if opts["meson"]:
        glob.append("--include-meson-subprojects")
    obs = json.loads(json.dumps(projmodel.EMPTY_OBS))
    if route == "lint":
        return projmodel.lint_obs(root, args=glob)
    if route == "spdx":
        r = core.run_reuse([*glob, "spdx"])
        if r["exc"] or r["exit"] != 0:
            obs["crash"] = (r["exc"] or r["err"] or "exit %s" % r["exit"])[-500:]
            return obs
        names = [ln[len("FileName: "):] for ln in r["out"].splitlines() if ln.startswith("FileName: ")]
        obs["files"] = [{"path": n[2:] if n.startswith("./") else n, "items": []} for n in names]
        obs["exit"] = 0
        return obs
    if route == "lint-file":
        # every examined file has a problem here (no LICENSES/ directory => the MIT text is missing, or no info at all)
        # (symlinks that resolve outside the root are answered with a usage error by lint-file: not passed here)
        allf = [str(x) for x in sorted(root.rglob("*")) if x.is_file()
                and not str(x.relative_to(root)).startswith(".git/")
                and x.resolve().is_relative_to(root.resolve())]
        if not allf:
            obs["exit"] = 0
            return obs
        link = root.parent / "via-link"
        if opts.get("_via_link"):
            # the project reached through a symbolic link: --root LINK, files named through the link or by their real path
            if not link.is_symlink():
                os.symlink(root.name, link)
            glob = ["--root", str(link), *glob[2:]]
            allf = [str(link / Path(x).relative_to(root)) if k % 2 == 0 else x for k, x in enumerate(allf)]
        r = core.run_reuse([*glob, "lint-file", *allf])
        if r["exc"] or r["exit"] not in (0, 1):
            obs["crash"] = (r["exc"] or r["err"] or "exit %s" % r["exit"])[-500:]
            return obs
        seen = []
        for ln in r["out"].splitlines():
            if ": " in ln:
                pth = ln.rsplit(": ", 1)[0]
                if opts.get("_via_link") and pth.startswith(str(link) + os.sep):
                    pth = str(root) + pth[len(str(link)):]
                rel = projmodel._rel(pth, root)
                if rel not in seen:
                    seen.append(rel)
        obs["files"] = [{"path": s_, "items": []} for s_ in seen]
        obs["exit"] = r["exit"]
        return obs
    raise ValueError(route)


def snapshot(root: Path) -> dict:
    import hashlib
    snap = {}
    for x in root.rglob("*"):
        rel = x.relative_to(root).as_posix()
        if rel == ".git" or rel.startswith(".git/") or "/.git/" in "/" + rel + "/" and (root / rel.split("/.git/")[0] / ".git").is_dir() and rel.split("/")[0] != ".git" and False:
            continue
        if x.is_symlink():
            snap[rel] = ("link", os.readlink(x))
        elif x.is_file():
            snap[rel] = ("file", hashlib.sha1(x.read_bytes()).hexdigest())
    return snap


def annotate_route(case: dict, p0: dict, scope: list, rnd_seed: int) -> dict:
    """Fresh copy of the tree, `reuse annotate -r <scope>`, examined = files whose bytes changed or that got a .license."""
    d = core.scratch_dir("c03a-")
    try:
        root = d / "root"
        p = build_project(case["g"], random.Random(case["seed"]))
        materialise_c03(p, root, d / "outside")
        before = snapshot(root)
        before_out = snapshot(d / "outside") if (d / "outside").exists() else {}
        glob = ["--root", str(root), "--no-multiprocessing"]
        if p["opts"]["submodules"]:
            glob.append("--include-submodules")
        if p["opts"]["meson"]:
            glob.append("--include-meson-subprojects")
        target = root.joinpath(*scope) if scope else root
        r = core.run_reuse([*glob, "annotate", "--copyright", "Annotator", "--license", "0BSD", "--year", "2024",
                            "--fallback-dot-license", "-r", str(target)])
        obs = json.loads(json.dumps(projmodel.EMPTY_OBS))
        if r["exc"] or r["exit"] not in (0, 1):
            obs["crash"] = (r["exc"] or r["err"] or "exit %s" % r["exit"])[-500:]
            return obs
        after = snapshot(root)
        after_out = snapshot(d / "outside") if (d / "outside").exists() else {}
        touched = set()
        for rel in set(before) | set(after):
            if before.get(rel) != after.get(rel):
                if rel.startswith(".git/"):
                    continue
                touched.add(rel[:-len(".license")] if rel.endswith(".license") and rel not in before else rel)
        for rel in set(before_out) | set(after_out):
            if before_out.get(rel) != after_out.get(rel):
                touched.add("<outside>/" + rel)
        obs["files"] = [{"path": t, "items": []} for t in sorted(touched)]
        obs["exit"] = r["exit"]
        return obs
    finally:
        shutil.rmtree(d, ignore_errors=True)


def run_case(case: dict) -> list:
    rnd = random.Random(case["seed"])
    d = core.scratch_dir("c03-")
    saved_env = {k: os.environ.get(k) for k in ("HOME", "XDG_CONFIG_HOME")}
    try:
        # the user's own Git configuration (ignore file) is the scratch home's - for the tool as for the oracle
        os.environ["HOME"] = str(d)
        os.environ.pop("XDG_CONFIG_HOME", None)
        root = d / "root"
        p = build_project(case["g"], rnd)
        materialise_c03(p, root, d / "outside")
        extra_files = []
        if p["git"]:
            for name in (".gitignore", ".gitmodules"):
                if (root / name).exists():
                    extra_files.append({"path": [name], "pathstr": name, "pchars": list(name), "ncls": "hidden",
                                        "type": "text", "anc": [], "ignored": False, "unreadable": False, "cov": True,
                                        "own": {"cop": [], "lic": [], "bad": False},
                                        "dot": {"present": False, "cop": [], "lic": [], "bad": False},
                                        "want": "tracked", "untrackedDir": False, "ctx": []})
            p["files"] += extra_files
            git_facts(p, root)
        pj = {k: v for k, v in p.items() if not k.startswith("_")}
        events = []
        for ri, route in enumerate(case["routes"]):
            scope = []
            if route.startswith("annotate"):
                dirs = sorted({tuple(f["path"][:k]) for f in p["files"] for k in range(1, len(f["path"]))})
                if route == "annotate-sub":
                    if not dirs:
                        continue
                    scope = list(dirs[rnd.randrange(len(dirs))])
                obs = annotate_route(case, p, scope, case["seed"])
            elif route == "lint-subroot":
                # the project root is a sub-directory of the Git work tree (`--root DIR`): Git's ignore rules still apply
                plain = sorted({tuple(f["path"][:k]) for f in p["files"] for k in range(1, len(f["path"]))
                                if all(a["cls"] == "plain" and not a["symlink"] and not a.get("submodule") for a in f["anc"][:k])
                                and not any(x in ("ignoreddir", "untrackeddir", "submodule", "symlinkdir") for x in f.get("ctx", [])[:k])})
                # (a directory that holds a file called `.git` is no place to ask Git anything: Git itself fails there)
                plain = [d_ for d_ in plain if not any(f["ncls"] == "git-file" and tuple(f["path"][:len(d_)]) == d_ for f in p["files"])]
                if not plain:
                    continue
                # prefer a directory below which Git ignores something while something else is tracked
                hot = [d_ for d_ in plain
                       if any(f["ignored"] and tuple(f["path"][:len(d_)]) == d_ for f in p["files"])
                       and any(not f["ignored"] and not f.get("untrackedDir") and tuple(f["path"][:len(d_)]) == d_ for f in p["files"])]
                pool = hot or plain
                scope = list(pool[rnd.randrange(len(pool))])
                sub = root.joinpath(*scope)
                if not sub.is_dir() or sub.is_symlink():
                    continue
                obs = observe(sub, p["opts"], "lint")
                for f_ in obs["files"]:
                    f_["path"] = "/".join(scope) + "/" + f_["path"]
            else:
                obs = observe(root, dict(p["opts"], _via_link=(route == "lint-file" and case["tid"] % 2 == 0)), route)
            events.append({"tid": case["tid"] * 8 + ri, "p": pj, "checks": ["C03"], "scope": scope,
                           "label": json.dumps({"route": route, "scope": "/".join(scope), "git": p["git"], "opts": p["opts"],
                                                "nodes": [[f["pathstr"], f["ncls"], f["type"], f.get("want"), f["ignored"]]
                                                          for f in p["files"]]}, ensure_ascii=True),
                           "obs": obs})
        return events
    finally:
        for k_, v_ in saved_env.items():
            if v_ is None:
                os.environ.pop(k_, None)
            else:
                os.environ[k_] = v_
        shutil.rmtree(d, ignore_errors=True)


def run(ctx: core.Ctx) -> int:
    q = ctx.quick
    ctx.assumptions += [
        "Git's own answer (git check-ignore, without --no-index) is the oracle for VCS exclusion",
        "directories named LICENSES/.reuse/.git/.hg/.sl below the root, `subprojects/X` below the root, a file named "
        ".git and .hgtags are not pinned by the statement: either answer is accepted",
        "names hitting the tool-private work-arounds CAL-1.0* / SHL-2.1* are not generated",
    ]
    mc = ctx.mc("CoveredGen", "MC_C03.cfg")
    mcg = ctx.mc("CoveredGen", ctx.cfg_with("MC_C03.cfg", "git", Git="TRUE", Ctxs="CtxsGit", Wants="WantsGit"))
    mc_viol = [{"clause": f"model:{v}", "kf": "", "detail": r["out"][-2500:]} for r in (mc, mcg) for v in r["violated"]]
    gens = ctx.gen_json("CoveredGen", "Gen_C03.cfg")
    ctx.exhaustive = True
    gens += ctx.gen_json("CoveredGen", ctx.cfg_with("Sample_C03.cfg", "t", SampleN=300 if q else 4000), workers=1,
                         extra=["-seed", str(ctx.seed + 3)])
    n_nogit = len(gens)
    # Git: exhaustive over context x wish for three name classes, sampled multi-node repositories
    ggit = ctx.gen_json("CoveredGen", ctx.cfg_with(
        "Gen_C03.cfg", "git", Git="TRUE", Ctxs="CtxsGit", Wants="WantsGit",
        NameClasses='{"plain", "LICENSE", "dot-license"}' if q else "AllNameClasses", Types='{"text"}' if q else '{"text", "empty"}'))
    ggit += ctx.gen_json("CoveredGen", ctx.cfg_with(
        "Sample_C03.cfg", "git", Git="TRUE", Ctxs="CtxsGit", Wants="WantsGit", SampleN=250 if q else 5000), workers=1,
        extra=["-seed", str(ctx.seed + 4)])
    cases = []
    for i, g in enumerate(gens + ggit):
        routes = ["lint"] if (i % 5 and i < n_nogit) else ["lint", "spdx", "lint-file"]
        if i % 3 == 0 or i >= n_nogit:
            routes += ["annotate", "annotate-sub"]
        if i >= n_nogit:
            routes.append("lint-subroot")
        if i < n_nogit and i % 6 == 1:      # names ending in a line break (the line-oriented outputs cannot carry them: lint --json only)
            g, routes = dict(g, nl=True), ["lint"]
        cases.append({"tid": i + 1, "g": g, "seed": ctx.seed * 7919 + i, "routes": routes})
    evl = ctx.pmap(run_case, cases, chunksize=8)
    events = [e for es in evl for e in es]
    for c_, es in zip(cases, evl):
        for e in es:                     # (events carry tid = 8 x case id + route index)
            ctx._case_of[e["tid"]] = ("props.c03:run_case", c_)
    for ev in events[:: max(1, len(events) // 5)][:5]:
        ctx.samples.append({"case": json.loads(ev["label"]), "examined": [f["path"] for f in ev["obs"]["files"]]})
    ctx.validate("Trace_Project", "Trace_Project.cfg", events)
    for r in ctx.rejects:
        if isinstance(r.get("detail"), str):
            try:
                r["detail"] = json.loads(r["detail"])
            except ValueError:
                pass
        if r.get("event"):
            r["event"] = {"label": r["event"]["label"], "examined": [f["path"] for f in r["event"]["obs"]["files"]],
                          "crash": r["event"]["obs"]["crash"]}
    return ctx.finish(
        evaluations=len(events),
        distinct_nontrivial=len({e["label"] for e in events}),
        rule="single-node projects: every directory context x name class x type (complete, no VCS), Git repositories: "
             "context x wish complete for selected classes, plus TLC-sampled six-node projects with and without Git; "
             "examined set observed via lint --json, spdx, lint-file on every file, and annotate -r on the root and on a sub-directory (tree snapshots); distinct = distinct concrete trees",
        mc_violations=mc_viol)


def replay(ctx: core.Ctx, path: str) -> int:
    return core.generic_replay(ctx, path)
