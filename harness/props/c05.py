"""C05 - REUSE.toml path globs denote exactly the specified language.

TLC: GlobGen (enumeration of globs), GlobProduct (language inclusion for paths of any length:
product of subset constructions, Mode=model for M |= R and Mode=impl for the regular expression
the real code compiled), Trace_C05 (bounded direct conformance of matches() / lint --json).
Python: builds AnnotationsItem objects, parses their compiled pattern into automaton items
(binding), asks the real matcher about concrete paths, materialises projects for the lint route."""
from __future__ import annotations

import itertools
import json
import random
import shutil

import core
import suitetrace

GLOBSYM = ["a", ".", "/", "*", "\\"]
PATHSYM = ["a", "z", ".", "/", "*", "\\", "\n"]


class BindingError(Exception):
    pass


def regex_to_alts(pattern: str) -> list:
    """Strict parser for the pattern shape AnnotationsItem compiles: an alternation of
    anchored groups made of escaped characters, '.*', '[^/]*', '(?:.*/)?' and plain characters."""
    alts, depth, cur, i = [], 0, "", 0
    while i < len(pattern):
        c = pattern[i]
        if c == "\\":
            cur += pattern[i:i + 2]
            i += 2
            continue
        if c == "[":
            j = pattern.index("]", i)
            cur += pattern[i:j + 1]
            i = j + 1
            continue
        if c == "(":
            depth += 1
        elif c == ")":
            depth -= 1
        if c == "|" and depth == 0:
            alts.append(cur)
            cur = ""
        else:
            cur += c
        i += 1
    alts.append(cur)
    out = []
    for alt in alts:
        if alt.startswith("^"):
            alt = alt[1:]
        for end in ("$", "\\Z"):
            if alt.endswith(end) and not alt.endswith("\\" + end):
                alt = alt[: -len(end)]
                break
        if alt.startswith("(?:") and alt.endswith(")") and _balanced(alt[3:-1]):
            alt = alt[3:-1]
        elif alt.startswith("(") and not alt.startswith("(?") and alt.endswith(")") and _balanced(alt[1:-1]):
            alt = alt[1:-1]
        items, i = [], 0
        while i < len(alt):
            if alt.startswith("(?:.*/)?", i):
                items.append({"k": "gsl", "c": ""})
                i += 8
            elif alt.startswith("[^/]*", i):
                items.append({"k": "star", "c": ""})
                i += 5
            elif alt.startswith(".*", i):
                items.append({"k": "gs", "c": ""})
                i += 2
            elif alt[i] == "\\":
                if i + 1 >= len(alt) or alt[i + 1].isalnum():
                    raise BindingError(f"unsupported escape in {alt!r}")
                items.append({"k": "lit", "c": alt[i + 1]})
                i += 2
            elif alt[i] in ".^$*+?{}[]()|":
                raise BindingError(f"unsupported construct {alt[i]!r} in {alt!r}")
            else:
                items.append({"k": "lit", "c": alt[i]})
                i += 1
        out.append(items)
    return out


def _balanced(s: str) -> bool:
    d, i = 0, 0
    while i < len(s):
        if s[i] == "\\":
            i += 2
            continue
        if s[i] == "(":
            d += 1
        elif s[i] == ")":
            d -= 1
            if d < 0:
                return False
        i += 1
    return d == 0


def bind_case(case: dict) -> dict:
    from reuse.global_licensing import AnnotationsItem
    globs = ["".join(g) for g in case["globs"]]
    try:
        item = AnnotationsItem(paths=globs)
        rx = getattr(item, "_paths_regex", None)
        if rx is None:
            raise BindingError("no _paths_regex")
        impl = regex_to_alts(rx.pattern)
        return {"id": case["id"], "globs": case["globs"], "impl": impl, "pattern": rx.pattern}
    except BindingError as exc:
        return {"id": case["id"], "globs": case["globs"], "impl": None, "error": str(exc)}


def sample_paths(globs: list, rnd: random.Random, n_random: int, full_len: int) -> list:
    paths = [[]]
    for n in range(1, full_len + 1):
        paths += [list(p) for p in itertools.product(PATHSYM, repeat=n)]
    chars = sorted({c for g in globs for c in g if c not in "*\\"} | {"a", "/"})
    for _ in range(n_random):
        n = rnd.randint(full_len + 1, 8)
        pool = chars * 3 + PATHSYM
        paths.append([rnd.choice(pool) for _ in range(n)])
    return paths


# "every other character matches only itself" also for characters that Unicode normalisation would identify: the letters
# K and Q of the abstract alphabet are written as "K" (U+004B) and the KELVIN SIGN (U+212A), E and F as a composed and a
# decomposed e-acute.  (TLC reads ASCII only: the trace carries the abstract letters.)
UNI = {"Q": "\u212a", "E": "\u00e9", "F": "e\u0301"}


def uni(chars: list) -> str:
    return "".join(UNI.get(c, c) for c in chars)


def api_case(case: dict) -> dict:
    """Ask the real matcher about concrete paths."""
    from reuse.global_licensing import AnnotationsItem
    rnd = random.Random(case["seed"])
    globs = [uni(g) for g in case["globs"]]
    item = AnnotationsItem(paths=globs)
    paths = sample_paths(case["globs"], rnd, case["n_random"], case["full_len"])
    if case.get("unicode"):
        twin = {"K": "Q", "Q": "K", "E": "F", "F": "E"}
        extra = []
        for g in case["globs"]:
            lit = [c for c in g if c not in "*\\"]
            extra += [lit, [twin.get(c, c) for c in lit], ["d", "/"] + lit, ["d", "/"] + [twin.get(c, c) for c in lit]]
        paths = extra + paths[:40]
    if case.get("explicit_paths"):
        paths = case["explicit_paths"]
    obs = [bool(item.matches(uni(p))) for p in paths]
    return {"tid": case["id"], "globs": case["globs"], "paths": paths, "obs": obs, "via": "api",
            "impl": case.get("impl") or []}


def valid_relpath(p: list) -> bool:
    s = "".join(p)
    if not s or s.startswith("/") or s.endswith("/") or "//" in s:
        return False
    return all(part not in ("", ".", "..") for part in s.split("/"))


def lint_case(case: dict) -> dict:
    """The same question through the CLI: a REUSE.toml whose only annotation uses the globs
    (precedence override), a tree of files; a file is matched iff lint attributes the
    annotation's copyright to it."""
    import tomlkit
    rnd = random.Random(case["seed"])
    globs = ["".join(g) for g in case["globs"]]
    cand = [p for p in sample_paths(case["globs"], rnd, 60, 2) if valid_relpath(p)]
    rnd.shuffle(cand)
    chosen, files, dirs = [], set(), set()
    for p in cand:
        s = "".join(p)
        parts = s.split("/")
        prefixes = {"/".join(parts[:k]) for k in range(1, len(parts))}
        if s in dirs or s in files or prefixes & files:
            continue
        if parts[-1] == "REUSE.toml" or parts[0] in ("LICENSES", ".reuse", ".git"):
            continue
        chosen.append(p)
        files.add(s)
        dirs |= prefixes
        if len(chosen) >= 14:
            break
    d = core.scratch_dir("c05-")
    try:
        base = d / "sub" if case.get("nested") else d
        base.mkdir(exist_ok=True)
        for p in chosen:
            f = base / "".join(p)
            f.parent.mkdir(parents=True, exist_ok=True)
            f.write_text("data\n")
        doc = {"version": 1, "annotations": [{"path": globs if len(globs) > 1 else globs[0],
                                              "precedence": "override",
                                              "SPDX-FileCopyrightText": "2020 Glob Owner",
                                              "SPDX-License-Identifier": "MIT"}]}
        (base / "REUSE.toml").write_text(tomlkit.dumps(doc))
        # the root is spelled absolutely, or as "." from inside it (the path relative to the REUSE.toml must not depend on it)
        if case.get("relroot"):
            r = core.run_reuse(["--root", ".", "--no-multiprocessing", "lint", "--json"], cwd=d)
        else:
            r = core.run_reuse(["--root", str(d), "--no-multiprocessing", "lint", "--json"])
        if r["exc"] or r["exit"] not in (0, 1):
            return {"tid": case["id"], "globs": case["globs"], "paths": [[]], "obs": [False], "via": "lint-crash",
                    "impl": [], "crash": (r["exc"] or r["err"])[-400:]}
        rep = json.loads(r["out"])
        pre = "sub/" if case.get("nested") else ""
        matched = {f["path"] for f in rep["files"]
                   if any(c["value"].endswith("Glob Owner") for c in f["copyrights"])}
        seen = {f["path"] for f in rep["files"]}
        paths, obs = [], []
        for p in chosen:
            s = pre + "".join(p)
            if s in seen:
                paths.append(p)
                obs.append(s in matched)
        return {"tid": case["id"], "globs": case["globs"], "paths": paths or [[]],
                "obs": obs or [bool(matched) and False], "via": "lint", "impl": []}
    finally:
        shutil.rmtree(d, ignore_errors=True)


def run(ctx: core.Ctx) -> int:
    q = ctx.quick
    rnd = random.Random(ctx.seed)
    maxlen = 4 if q else 6
    ctx.assumptions += [
        "glob alphabet {a . / * \\}; path alphabet adds a fresh letter and newline",
        "a glob ending in a lone backslash is ill-formed and outside the domain",
        "the unbounded result (GlobProduct) speaks about the items parsed from the compiled pattern; that these items "
        "mean what Python's re means is checked by the bounded direct route (Trace_C05) on every case",
    ]
    # 1. TLC enumerates globs
    states = ctx.gen("GlobGen", ctx.cfg_with("Gen_C05.cfg", "t", MaxLen=maxlen))
    singles = [s["g"] for s in states if s["wf"] and s["g"]]
    cases = [{"globs": [g]} for g in singles]
    short = [g for g in singles if len(g) <= 2]
    for a, b in itertools.combinations(short, 2):
        cases.append({"globs": [a, b]})
    n_multi = 400 if q else 6000
    for _ in range(n_multi):
        k = rnd.choice([2, 2, 3])
        cases.append({"globs": [rnd.choice(singles) for _ in range(k)]})
    big_alpha = GLOBSYM + ["b", "-", "_", "p", "y"]
    n_long = 400 if q else 20000
    while n_long:
        g = [rnd.choice(big_alpha + ["*", "/", "*"]) for _ in range(rnd.randint(maxlen + 1, 12))]
        # well-formedness is R's business: let TLC filter (wf is rechecked in GlobProduct via Tok); keep only
        # globs whose backslashes pair up syntactically so the case file stays inside the domain
        ok, i = True, 0
        while i < len(g):
            if g[i] == "\\":
                if i + 1 >= len(g):
                    ok = False
                i += 2
            else:
                i += 1
        if ok:
            cases.append({"globs": [g]})
            n_long -= 1
    for i, c in enumerate(cases, 1):
        c["id"] = i
        c["seed"] = ctx.seed * 1000003 + i
    ctx.exhaustive = True
    # 2. binding: read the compiled matcher off the real code
    bound = ctx.pmap(bind_case, cases)
    unbound = [b for b in bound if b["impl"] is None]
    ctx.notes["binding_failures"] = len(unbound)
    if unbound:
        ctx.log(f"binding fell back to bounded mode for {len(unbound)} cases, e.g. {unbound[0].get('error')}")
    by_id = {b["id"]: b for b in bound}
    # 3. M |= R and impl vs R: product exploration
    casefile = ctx.scratch / "c05-cases.ndjson"
    usable = [b for b in bound if b["impl"] is not None]
    mc_viol = []

    def product(mode: str, rows: list, tag: str):
        shards = [rows[i::8] for i in range(8)] if len(rows) > 2000 else [rows]
        res = []
        for si, sh in enumerate(shards):
            if not sh:
                continue
            f = ctx.scratch / f"c05-cases-{tag}-{si}.ndjson"
            with open(f, "w") as fh:
                for b in sh:
                    fh.write(json.dumps({"id": b["id"], "globs": b["globs"], "impl": b.get("impl") or []}) + "\n")
            r = ctx.mc("GlobProduct", ctx.cfg_with("MC_C05.cfg", mode, Mode=f'"{mode}"'),
                       env={"CASES_FILE": str(f)}, tag=f"prod-{tag}-{si}", workers=max(2, core.NCPU // 2))
            res.append(r)
            f.unlink()
        return res

    for r in product("model", [{"id": c["id"], "globs": c["globs"]} for c in cases], "model"):
        seen = set()
        for v in core.printed_tuples(r["out"], "REJECT"):
            if (v[1], v[3]) in seen:
                continue
            seen.add((v[1], v[3]))
            mc_viol.append({"clause": v[3], "kf": v[4], "detail": v[5], "tid": v[1], "mc": None})
        if r["violated"]:
            mc_viol.append({"clause": "model:" + ",".join(r["violated"]), "kf": "", "detail": r["out"][-1500:]})
    drift = 0
    for r in product("impl", usable, "impl"):
        seen = set()
        for v in core.printed_tuples(r["out"], "REJECT"):
            if (v[1], v[3]) in seen:
                continue
            seen.add((v[1], v[3]))
            b = by_id[v[1]]
            mc_viol.append({"clause": v[3] + "(all-paths)", "kf": v[4], "tid": v[1],
                            "detail": {"globs": ["".join(g) for g in v[5][0]], "witness_path": "".join(v[5][1]),
                                       "compiled": b.get("pattern")},
                            "event": {"globs": b["globs"], "witness": v[5][1]}})
        drift += len(core.printed_tuples(r["out"], "DRIFT"))
        if r["violated"]:
            mc_viol.append({"clause": "spec:" + ",".join(r["violated"]), "kf": "", "detail": r["out"][-1500:]})
    ctx.notes["model_drift_cases"] = drift
    ctx.notes["product_cases"] = len(usable)
    # 4. direct conformance: real matches() on concrete paths, and the lint route
    api_cases = []
    for c in cases:
        b = by_id[c["id"]]
        api_cases.append({**c, "impl": b["impl"], "n_random": 30 if q else 80,
                          "full_len": 2 if (q or len(c["globs"]) > 1 or len(c["globs"][0]) > 5) else 3})
    for g_ in ([["K", ".", "t"]], [["Q", "*"]], [["*", "*", "/", "K"]], [["E", ".", "t"]], [["F", "*"]], [["d", "/", "*", "E"]], [["K"], ["F", ".", "t"]]):
        api_cases.append({"id": 30_000_000 + len(api_cases), "globs": g_, "seed": ctx.seed, "impl": [], "n_random": 20, "full_len": 1, "unicode": True})
    # one table that lists very many paths (100 and more): every one of them is covered, nothing else is
    for n_ in (99, 100, 101, 130, 205):
        names = [list(f"a/f{k:03}.t") for k in range(n_)]
        others = [list(f"a/f{k:03}.t") for k in range(n_, n_ + 5)] + [list("a/f000.tx"), list("b/f001.t")]
        api_cases.append({"id": 31_000_000 + n_, "globs": names, "seed": ctx.seed, "impl": [], "n_random": 0, "full_len": 0,
                          "explicit_paths": names + others})
    events = ctx.pmap(api_case, api_cases)
    lint_n = 160 if q else 2500
    lint_cases = [{**c, "nested": bool(i % 2), "relroot": i % 4 >= 2} for i, c in enumerate(rnd.sample(cases, min(lint_n, len(cases))))]
    lint_events = ctx.pmap(lint_case, lint_cases, chunksize=4)
    for e in lint_events:
        e["tid"] = e["tid"] + 10_000_000
    crashes = [e for e in lint_events if e["via"] == "lint-crash"]
    for e in crashes:
        mc_viol.append({"clause": "C05.lint-route-crashed", "kf": "", "detail": e.get("crash"), "event": e})
    lint_events = [e for e in lint_events if e["via"] == "lint"]
    ctx.samples += [{"globs": ["".join(g) for g in e["globs"]], "via": e["via"],
                     "paths": ["".join(p) for p in e["paths"][:12]], "obs": e["obs"][:12]}
                    for e in (events[3], events[len(events) // 2], events[-1], *lint_events[:2])]
    n_eval = sum(len(e["paths"]) for e in events) + sum(len(e["paths"]) for e in lint_events)
    # every AnnotationsItem.matches() call the repository's own tests make, recorded and judged by the same two readings
    suite_events = suitetrace.collect_api(ctx)
    for i, e in enumerate(suite_events):
        e["tid"] = 20_000_000 + i
    n_eval += sum(len(e["paths"]) for e in suite_events)
    rej = ctx.validate("Trace_C05", "Trace_C05.cfg", events + lint_events + suite_events)
    for r in rej:
        d = r.get("detail")
        if d:
            r["detail"] = {"globs": ["".join(g) for g in d[0]], "path": "".join(d[1]), "via": d[2]}
    nontriv = len({tuple(map(tuple, c["globs"])) for c in cases
                   if any(ch in ("*", "\\") for g in c["globs"] for ch in g)})
    return ctx.finish(
        evaluations=n_eval, distinct_nontrivial=nontriv,
        rule="cases = every well-formed glob up to MaxLen (TLC-enumerated) + all pairs of globs of length <= 2 + seeded "
             "multi-glob annotations + seeded long globs; each case: product exploration over all paths (TLC) and "
             "direct matches()/lint answers on all paths up to length 2-3 plus seeded longer ones; non-trivial = glob "
             "contains an asterisk or a backslash; plus every matches() call made by the repository's own tests",
        mc_violations=mc_viol,
        extra={"exhaustive_bound": {"glob_MaxLen": maxlen}, "path_evaluations": n_eval})


def replay(ctx: core.Ctx, path: str) -> int:
    payload = json.load(open(path))
    ev = payload["event"]
    case = {"id": 1, "globs": ev["globs"], "seed": ctx.seed}
    b = bind_case(case)
    print("compiled pattern:", b.get("pattern"), "items:", b.get("impl"))
    e = api_case({**case, "impl": b["impl"], "n_random": 50, "full_len": 3})
    if "witness" in ev:
        from reuse.global_licensing import AnnotationsItem
        e["paths"].append(ev["witness"])
        e["obs"].append(bool(AnnotationsItem(paths=["".join(g) for g in ev["globs"]]).matches("".join(ev["witness"]))))
    ctx.validate("Trace_C05", "Trace_C05.cfg", [e])
    return ctx.finish(evaluations=len(e["paths"]), distinct_nontrivial=2, rule="replay of one recorded case")
