"""C13 - every lint output format and lint-file tell the same story as the exit status.

TLC: project states come from Lint.tla / Inventory.tla (TLC-enumerated / TLC-sampled); Trace_C13
judges the agreement of the views (opaque labels: equality of families of item sets).
Python: materialises, runs the five invocations, parses plain / lines output structurally."""
from __future__ import annotations

import json
import os
import random
import re
import shutil
from pathlib import Path

import core
import lintfileargs
import workflow
import projmodel
from props import c06

RENAMES = [("src", "my src"), ("f1.py", "f 1.py"), ("docs", "dócs"), ("inv", "inv dir")]


def rename_project(p: dict, rnd: random.Random) -> dict:
    """File names with blanks and non-ASCII characters: R does not depend on names."""
    ren = {a: b for a, b in RENAMES if rnd.random() < 0.5}
    if not ren:
        return p

    def rn(c):
        return ren.get(c, c)
    for f in p["files"]:
        f["path"] = [rn(c) for c in f["path"]]
        f["pathstr"] = "/".join(f["path"])
        f["pchars"] = list(f["pathstr"])
    for t in p["tomls"]:
        for tb in t["tables"]:
            tb["globs"] = [list("/".join(rn(c) for c in "".join(g).split("/"))) for g in tb["globs"]]
    return p


def norm(path: str, root: Path, cwd: Path) -> str:
    p = Path(path)
    if not p.is_absolute():
        # relative to the working directory, or (LICENSES/ entries) to the root
        p = cwd / p if (cwd / p).exists() or not (root / p).exists() else root / p
    p = Path(os.path.normpath(p))
    try:
        return p.relative_to(root).as_posix()
    except ValueError:
        try:
            return p.resolve().relative_to(root.resolve()).as_posix()
        except ValueError:
            return p.as_posix()


GROUP = re.compile(r"^'(.+)' [^']*:$")


def parse_plain(out: str, root: Path, cwd: Path, compliant_exit: bool) -> list:
    sections = []
    for ln in out.splitlines():
        if ln.startswith("# "):
            sections.append({"header": ln[2:], "lines": []})
        elif sections:
            sections[-1]["lines"].append(ln)
    # the summary is the last section of a compliant report, otherwise it is followed by the recommendations
    body = sections[:-1] if compliant_exit else sections[:-2]
    paras = []
    for sec in body:
        cur, gid = None, None
        grouped = None
        for ln in sec["lines"]:
            if not ln.strip():
                continue
            m = GROUP.match(ln)
            if m and not ln.startswith("* "):
                if grouped is None:
                    grouped = {"label": sec["header"], "items": []}
                    paras.append(grouped)
                gid = m.group(1)
                cur = grouped
            elif ln.startswith("* "):
                item = ln[2:]
                if cur is None:
                    cur = {"label": sec["header"], "items": []}
                    paras.append(cur)
                if cur is grouped and gid is not None:
                    cur["items"].append(gid + "|" + norm(item, root, cwd))
                else:
                    cur["items"].append(norm(item, root, cwd) if item.startswith("/") else item)
            else:
                cur = {"label": sec["header"] + " / " + ln, "items": []}
                gid = None
                paras.append(cur)
    return [p for p in paras if p["items"]]


def parse_lines(out: str, root: Path, cwd: Path, ids: set) -> list:
    res = []
    for ln in out.splitlines():
        if ": " not in ln:
            res.append({"label": "?unparsed", "item": ln})
            continue
        path, rest = ln.split(": ", 1)
        toks = rest.split(" ")
        if len(toks) > 1 and toks[-1] in ids:
            res.append({"label": " ".join(toks[:-1]), "item": toks[-1] + "|" + norm(path, root, cwd)})
        else:
            res.append({"label": rest, "item": norm(path, root, cwd)})
    return res


def run_case(case: dict) -> dict:
    rnd = random.Random(case["seed"])
    d = core.scratch_dir("c13-")
    ev = {"tid": case["tid"], "label": case["label"], "crash": ""}
    try:
        root = d / "root"
        p = projmodel.ensure_cls(rename_project(case["p"], rnd))
        m = projmodel.materialise(p, root, rnd, outside=d / "outside")
        projmodel.set_faults(m["faults"])
        gopt = []
        if case.get("meson"):
            # part of the tree becomes a Meson subproject, and every command is told to include subprojects
            tops = sorted(x for x in root.iterdir() if x.is_dir() and x.name not in ("LICENSES", ".reuse", "subprojects"))
            if tops:
                (root / "subprojects").mkdir(exist_ok=True)
                shutil.move(str(tops[0]), str(root / "subprojects" / tops[0].name))
            else:
                (root / "subprojects" / "lib").mkdir(parents=True)
                (root / "subprojects" / "lib" / "nolicence.py").write_text("# SPDX-FileCopyrightText: 2020 Sub Project\nx = 1\n")
            gopt = ["--include-meson-subprojects"]
        # a covered file whose name is stored DECOMPOSED (u + U+0308, as some file systems hand names out): every view and
        # lint-file speak about it under exactly that name
        if case["tid"] % 3 == 1:
            nfd = root / "nfd dir" / "u\u0308bersicht nai\u0308ve.txt"
            nfd.parent.mkdir(exist_ok=True)
            nfd.write_text("no information in this one\n")
        base = ["--root", str(root), "--no-multiprocessing", *gopt]
        runs = {}
        for fmt in ("json", "plain", "lines", "quiet"):
            runs[fmt] = core.run_reuse([*base, "lint", "--" + fmt])
        for fmt, r in runs.items():
            if r["exc"] or r["exit"] not in (0, 1):
                ev["crash"] = f"{fmt}: " + (r["exc"] or r["err"] or str(r["exit"]))[-400:]
        obs = json.loads(json.dumps(projmodel.EMPTY_OBS))
        if not ev["crash"]:
            obs = projmodel.project_report(json.loads(runs["json"]["out"]), root, obs)
        obs["exit"] = runs["json"]["exit"]
        ev["json"] = obs
        ev["exits"] = {k: r["exit"] for k, r in runs.items()}
        ev["quietlen"] = len(runs["quiet"]["out"])
        ids = {x["id"] for x in obs["missing"]} | {x["id"] for x in obs["bad"]}
        # plain prints identifiers for LICENSES/-level categories; map the lines format's paths back
        ev["plain"] = [] if ev["crash"] else parse_plain(runs["plain"]["out"], root, root, runs["plain"]["exit"] == 0)
        # identifiers listed in plain's deprecated / noext / unused sections are plain items already
        ev["lines"] = [] if ev["crash"] else parse_lines(runs["lines"]["out"], root, root, ids)
        ev["covered"] = sorted({f["path"] for f in obs["files"]} | set(obs["readerr"]))
        licpath = {}
        for en in p["licfiles"]:
            if en["dotlicense"]:
                continue
            name = en["name"]
            stem = en["stem"]
            ident = name if projmodel.classify(name) in ("cur", "dep", "exc") else stem
            licpath[ident] = "LICENSES/" + en["rel"]
        for k in set(obs["unused"]) | set(obs["deprecated"]) | set(obs["noext"]):
            licpath.setdefault(k, "?no-path-for-" + k)
        licpath.setdefault("-", "-")
        ev["licpath"] = licpath
        # lint-file on subsets
        # (every file of the tree, also symbolic links that point out of it: a link names nothing, wherever it points)
        allf = sorted(str(x.relative_to(root)) for x in root.rglob("*") if x.is_file())
        dirs = sorted({str(Path(f).parent) for f in allf if "/" in f})
        subsets = [[f] for f in rnd.sample(allf, min(3, len(allf)))]
        subsets.append(allf)
        subsets.append([])                 # no file named: nothing to report, exit 0
        for _ in range(2):
            subsets.append(rnd.sample(allf, rnd.randint(1, min(5, len(allf)))) + rnd.sample(dirs, min(1, len(dirs))))
        # a symbolic link to a covered file is not a covered file: naming the link names nothing (and not its target)
        targets = [f for f in ev["covered"] if (root / f).is_file() and not (root / f).is_symlink()]
        if targets and not ev["crash"]:
            lk = []
            for n, tgt in enumerate(rnd.sample(targets, min(2, len(targets)))):
                name = f"zz link {n}{Path(tgt).suffix}"
                os.symlink(tgt, root / name)
                lk.append(name)
            # ... and one that points out of the project
            (d / "outside-target.txt").write_text("not part of the project\n")
            os.symlink(str(d / "outside-target.txt"), root / "zz link out.txt")
            lk.append("zz link out.txt")
            subsets.append(lk[:1])
            subsets.append(lk + rnd.sample(allf, min(2, len(allf))))
            subsets.append(lk[-1:])
        ev["lintfile"] = []
        for si, F in enumerate(subsets):
            mode = si % 3
            if mode == 0:      # cwd = root, relative spelling, --root .
                cwd, rootarg, args = root, ".", F
            elif mode == 1:    # cwd = outside, absolute paths
                cwd, rootarg, args = d, str(root), [str(root / f) for f in F]
            else:              # cwd = a sub-directory, paths relative to it, relative root
                sub = root / (dirs[0] if dirs else ".")
                cwd, rootarg = sub, os.path.relpath(root, sub)
                args = [os.path.relpath(root / f, sub) for f in F]
            r = core.run_reuse(["--root", rootarg, "--no-multiprocessing", *gopt, "lint-file", *args], cwd=cwd)
            if r["exc"] or r["exit"] not in (0, 1):
                ev["crash"] = "lint-file: " + (r["exc"] or r["err"] or str(r["exit"]))[-400:]
                continue
            ev["lintfile"].append({"args": F, "out": parse_lines(r["out"], root, Path(cwd), ids), "exit": r["exit"],
                                   "mode": mode})
        return ev
    finally:
        projmodel.set_faults(())
        shutil.rmtree(d, ignore_errors=True)


def run(ctx: core.Ctx) -> int:
    q = ctx.quick
    rnd = random.Random(ctx.seed)
    ctx.assumptions += [
        "labels of sections / line messages are opaque: agreement = equality of the families of item sets, and as many "
        "labels as non-empty categories",
        "expected sets are derived from the same state's `lint --json` (whose own correctness is C01's subject)",
        "lint-file is given paths that lie inside the root (a path outside it is a usage error); symbolic links inside the root count, wherever they point",
        "file names contain blanks and non-ASCII letters but no ': ' sequence",
    ]
    gens = ctx.gen_json("Lint", "Gen_C01.cfg")
    ctx.exhaustive = not q
    if q:
        gens = rnd.sample(gens, 500)
    cases = []
    for g in gens:
        label = json.dumps({"i1": g["i1"], "i2": g["i2"], "i3": g["i3"], "inv": sorted(g["inv"])})
        cases.append({"tid": len(cases) + 1, "p": g["p"], "label": label, "seed": ctx.seed * 31 + len(cases)})
    inv = ctx.gen_json("Inventory", ctx.cfg_with("Sample_C06.cfg", "c13", SampleN=300 if q else 5000), workers=1,
                       extra=["-seed", str(ctx.seed + 131)])
    for c in c06.make_cases(inv, rnd, 1, len(cases) + 1, ctx.seed):
        cases.append({"tid": c["tid"], "p": c["p"], "label": c["label"], "seed": c["seed"]})
    for k_, c_ in enumerate(cases):
        if k_ % 5 == 2:
            c_["meson"] = True
            c_["label"] = json.dumps({"meson-subproject-included": json.loads(c_["label"])})
    events = ctx.pmap(run_case, cases, chunksize=8)
    for ev in events[:: max(1, len(events) // 3)][:3]:
        ctx.samples.append({"case": json.loads(ev["label"]), "exits": ev.get("exits"), "plain": ev.get("plain"),
                            "lines": ev.get("lines"), "lintfile": ev.get("lintfile", [])[:2]})
    n_inv = sum(4 + len(e.get("lintfile", [])) for e in events)
    ctx.validate("Trace_C13", "Trace_C13.cfg", events)
    for r in ctx.rejects:
        if isinstance(r.get("detail"), str):
            try:
                r["detail"] = json.loads(r["detail"])
            except ValueError:
                pass
    # Workflow.tla: lint-file interleaved with the modifying commands: its exit status is the verdict on the named files
    wf = workflow.stage(ctx, ("C13.", "crash"))
    # LintFileArgs.tla: what lint-file makes of one argument (14 kinds of argument x 3 ways of naming it), the whole table replayed
    lf = lintfileargs.stage(ctx, ("C13.", "crash"))
    return ctx.finish(
        mc_violations=wf["mc_violations"] + lf["mc_violations"],
        evaluations=n_inv + len(wf["events"]) + len(lf["events"]),
        distinct_nontrivial=len({e["label"] for e in events if e.get("exits", {}).get("json") == 1}),
        rule="project states from Lint.tla (all per-file information states x all subsets of inventory defects; quick: a "
             "seeded sample of 500) and TLC-sampled Inventory projects, names with blanks / non-ASCII; per state: lint in "
             "four formats + lint-file on single files, all files, and mixed subsets with directories, from three working "
             "directories / path spellings; non-trivial = the state is non-compliant",
        extra={"invocations": n_inv})


def replay(ctx: core.Ctx, path: str) -> int:
    return core.generic_replay(ctx, path)
