"""C07 - what annotate writes, the linter reads back.

Same machinery as C10 (props/c10.py: Annotate.tla model, file-type table sweep, Trace_Annotate) with the
rich option product (all bundles = prefixes / year forms / contributors / several holders and licences,
templates, .license variants, pre-existing content); judged by the C07 clauses of Trace_Annotate."""
from __future__ import annotations

import core
from props import c10

PROP = "C07"
PREFIXES = ("C07.", "crash")


def run(ctx: core.Ctx) -> int:
    return c10.run_property(ctx, PROP, PREFIXES, rich=True)


def replay(ctx: core.Ctx, path: str) -> int:
    return c10.replay(ctx, path)
