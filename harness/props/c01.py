"""C01 - lint verdict = compliance.

TLC: Lint.tla (compliant skeleton x injected defects of every category; ledger vs R; M |= R for
the verdict) prints every case's abstract project; Inventory and Precedence contribute TLC-sampled
"other" projects.  Each is materialised (fault injection for unreadable files), linted, and judged
by Trace_Project with ALL clause families (covered set, items, inventory, verdict)."""
from __future__ import annotations

import json
import random

import core
import workflow
import projmodel
from props import c04, c06

ALL = ["C03", "C04", "C06", "C01"]


def run(ctx: core.Ctx) -> int:
    q = ctx.quick
    rnd = random.Random(ctx.seed)
    ctx.assumptions += [
        "unreadable files are simulated by an audit hook raising PermissionError on open (the sandbox runs as root)",
        "clause (b) of the statement merges 'unknown identifier' and 'no text in LICENSES/': a used, unprovided "
        "LicenseRef- must be missing and may also be listed as bad",
    ]
    mc = ctx.mc("Lint", "MC_C01.cfg")
    mc_viol = [{"clause": f"model:{v}", "kf": "", "detail": mc["out"][-2500:]} for v in mc["violated"]]
    gens = ctx.gen_json("Lint", "Gen_C01.cfg")
    ctx.exhaustive = True
    cases = []
    for g in gens:
        label = json.dumps({"i1": g["i1"], "i2": g["i2"], "i3": g["i3"], "inv": sorted(g["inv"])})
        cases.append({"tid": len(cases) + 1, "p": g["p"], "checks": ALL, "label": label, "seed": ctx.seed + len(cases)})
    n_lint = len(cases)
    # "fully random trees": TLC-sampled projects of the other generators, judged with every clause family
    inv = ctx.gen_json("Inventory", ctx.cfg_with("Sample_C06.cfg", "c01", SampleN=600 if q else 8000), workers=1,
                       extra=["-seed", str(ctx.seed + 101)])
    for c in c06.make_cases(inv, rnd, 1, len(cases) + 1, ctx.seed):
        c["checks"] = ALL
        cases.append(c)
    pre = ctx.gen_json("Precedence", ctx.cfg_with("Sample_C04.cfg", "c01", SampleN=600 if q else 8000), workers=1,
                       extra=["-seed", str(ctx.seed + 102)])
    for g in pre:
        c = c04.to_case(len(cases) + 1, g, ctx.seed)
        c["checks"] = ALL
        cases.append(c)
    # Git work trees in which the VCS ignores a REUSE.toml (alone, or with its whole directory): it is not configuration
    plain = {"present": False, "cop": [], "lic": [], "bad": False}

    def node(path, ncls="plain", ignored=False):
        s_ = "/".join(path)
        return {"path": path, "pathstr": s_, "pchars": list(s_), "ncls": ncls, "type": "text",
                "anc": [{"cls": "plain", "symlink": False, "ignored": False, "submodule": False} for _ in path[:-1]],
                "ignored": ignored, "unreadable": False, "cov": True, "own": {"cop": [], "lic": [], "bad": False}, "dot": dict(plain)}
    full = {"globs": [list("**")], "prec": "override", "cop": ["2021 Ignored Config"],
            "lic": [{"text": "MIT", "tree": {"key": "MIT", "base": "MIT"}}]}
    for j, g in enumerate(rnd.sample(gens, 30 if q else 300)):
        p = json.loads(json.dumps(g["p"]))
        variant = j % 5
        excl = ""
        mono = False
        if variant == 4:       # the project below the top of a larger work tree, with a registered submodule inside the project
            gi, raw, mono = "", {}, True
        elif variant == 3:       # files without information that only the repository's own exclude list ignores (.git/info/exclude)
            p["files"] += [node(["notes.scratch"], "plain", True), node(["src", "debug.scratch"], "plain", True)]
            gi, raw, excl = "", {"notes.scratch": "scratch\n", "src/debug.scratch": "more scratch\n"}, "*.scratch\n"
        elif variant == 0:       # the REUSE.toml itself is ignored; it would annotate a tracked file without information
            p["files"] += [node(["data", "x.csv"]), node(["data", "REUSE.toml"], "REUSE.toml", True), node([".gitignore"], "hidden")]
            p["tomls"].append({"dir": ["data"], "dirchars": list("data"), "srcstr": "data/REUSE.toml", "ignored": True, "tables": [full]})
            gi, raw = "/data/REUSE.toml\n", {}
        elif variant == 1:     # a whole ignored directory holds a REUSE.toml that is not even valid
            p["files"] += [node(["build", "REUSE.toml"], "REUSE.toml", True), node(["build", "gen.py"], "plain", True), node([".gitignore"], "hidden")]
            gi, raw = "build/\n", {"build/REUSE.toml": "version = \"one\"\n[[annotations]\n", "build/gen.py": "x = 1\n"}
        else:                  # an ignored vendored tree with its own valid REUSE.toml
            p["files"] += [node(["vendor", "pkg", "REUSE.toml"], "REUSE.toml", True), node(["vendor", "pkg", "lib.c"], "plain", True),
                           node([".gitignore"], "hidden")]
            p["tomls"].append({"dir": ["vendor", "pkg"], "dirchars": list("vendor/pkg"), "srcstr": "vendor/pkg/REUSE.toml",
                               "ignored": True, "tables": [full]})
            gi, raw = "vendor/\n", {}
        label = json.dumps({"git-ignored-config": variant, "i1": g["i1"], "i2": g["i2"], "i3": g["i3"], "inv": sorted(g["inv"])})
        cases.append({"tid": len(cases) + 1, "p": p, "checks": ALL, "label": label, "seed": ctx.seed + len(cases), "git": True,
                      "raw_files": dict(raw, **({".gitignore": gi} if gi else {})), "git_exclude": excl, "git_monorepo": mono})
    for k_, c_ in enumerate(cases):
        if k_ % 3 == 1 and not c_.get("git"):
            c_["twins"] = True
        if k_ % 40 == 5 and c_["p"].get("tomls") and not c_.get("git"):
            c_["locale_c"] = True
    events = ctx.pmap(projmodel.run_project_case, cases, chunksize=16)
    for ev in events[:: max(1, n_lint // 3)][:3] + events[-1:]:
        o = ev["obs"]
        ctx.samples.append({"case": json.loads(ev["label"]), "observed": {k: o[k] for k in o if k != "files"}})
    ctx.validate("Trace_Project", "Trace_Project.cfg", events)
    for r in ctx.rejects:
        if isinstance(r.get("detail"), str):
            try:
                r["detail"] = json.loads(r["detail"])
            except ValueError:
                pass
    # Workflow.tla: cross-command behaviours replayed on the real tool, abstract state compared after every command
    wf = workflow.stage(ctx, ('C01.', 'crash'))
    mc_viol = list(mc_viol) + wf["mc_violations"]
    return ctx.finish(
        evaluations=len(events) + len(wf["events"]),
        distinct_nontrivial=len({e["label"] for e in events[:n_lint] if '"both", "i2": "both", "i3": "both", "inv": []' not in e["label"]})
        + len(events) - n_lint,
        rule="Lint.tla: 6 x 5 x 4 per-file information states x all 32 subsets of inventory defects (complete), each "
             "with non-covered distractor files; plus TLC-sampled Inventory (two identifier slots) and Precedence "
             "(depth-3 chains) projects; every event judged for covered set, items, inventory and verdict; "
             "non-trivial = at least one defect injected",
        mc_violations=mc_viol)


def replay(ctx: core.Ctx, path: str) -> int:
    if str(json.load(open(path)).get("runner", "")).startswith("workflow:"):
        return core.generic_replay(ctx, path)
    payload = json.load(open(path))
    ev = payload["event"]
    case = {"tid": 1, "p": ev["p"], "checks": ALL, "label": ev.get("label", ""), "seed": ctx.seed}
    e = projmodel.run_project_case(case)
    print(json.dumps({k: v for k, v in e["obs"].items()}, indent=1)[:3000])
    ctx.validate("Trace_Project", "Trace_Project.cfg", [e])
    return ctx.finish(evaluations=1, distinct_nontrivial=2, rule="replay of one recorded case")
