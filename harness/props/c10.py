"""C10 - re-running annotate with the same arguments changes nothing.

TLC: Annotate.tla / AnnotateMC.tla (Idempotent, Monotone, FailedUntouched on the model; histories
of bundles); every history [b, b(, b, b)] is replayed on every entry of the file-type tables (binding),
every --style, with option flavours; Trace_Annotate judges (C10 clauses: identical re-run leaves the bytes
alone, no second header block)."""
from __future__ import annotations

import json
import random

import anncases
import annhist
import annmodel
import core
import targets
import workflow

PROP = "C10"
PREFIXES = ("C10.", "crash")


def sweep_cases(ctx: core.Ctx, rnd: random.Random, gens: list, repeats: int, *, rich: bool) -> list:
    q = ctx.quick
    table = anncases.file_type_table()
    styles = {s["name"]: s for s in annmodel.style_table()}
    singles = [g["hist"][0]["b"] for g in gens if len(g["hist"]) == 1]
    by_name = {b["name"]: b for b in singles}
    cases = []

    def add(fname, style_name, kind, b, flavour, tag, must=True, extra_files=None, unrec=False):
        seed = f"{ctx.seed}|{len(cases)}"
        steps = [anncases.step_of(b, rnd, [fname], flavour, must=must, pick_seed=seed) for _ in range(repeats)]
        eol = ["\n", "\r\n", "\r"][len(cases) % 3]
        cases.append({"tid": len(cases) + 1, "files": [{"name": fname, "kind": kind, "style_name": style_name, "unrecognised": unrec, "eol": eol}]
                      + (extra_files or []), "steps": steps,
                      "label": anncases.label(file=fname, entry=tag, body=kind, bundle=b["name"], flavour=flavour)})

    bodies = ["empty", "code", "comment", "shebang"]
    bundle_cycle = [by_name[n] for n in ("B1", "B9", "B6", "B2", "B3", "B4", "B7", "B11", "B5") if n in by_name]
    for i, (fname, sname, tag) in enumerate(table):
        st = styles.get(sname)
        for j, kind in enumerate(bodies):
            if kind == "shebang" and not (st and st["shebangs"]):
                continue
            if q and kind in ("comment", "shebang") and (i + j) % 3:
                continue
            add(fname, sname, kind, bundle_cycle[(i + j) % len(bundle_cycle)], {}, tag)
        if st and st["hasMulti"] and st["hasSingle"]:
            add(fname, sname, "code", by_name["B1"], {"multi_line": True}, tag)
        if st and st["hasMulti"] and st["hasSingle"] and not q:
            add(fname, sname, "code", by_name["B1"], {"single_line": True}, tag)
        if i % (6 if q else 1) == 0:
            add(fname, sname, "code", by_name["B1"], {"dot": "force"}, tag)
    # a byte order mark in front of the code; a template that carries a notice and a licence of its own (the tool may refuse
    # it - but then every time, and without touching the file)
    for fname, sname in (("sample.py", "python"), ("sample.cs", "cpp"), ("sample.html", "html"), ("sample.c", "c")):
        for _ in range(3):
            add(fname, sname, "bomcode", by_name["B1"], {}, "bom:" + fname)
        add(fname, sname, "code", by_name["B1"], {"template": "literal"}, "literal-template:" + fname, must=False)
        add(fname, sname, "ownheader", by_name["B9"], {"template": "literal"}, "literal-template:" + fname, must=False)
    # only contributors requested, under a template that renders none: a header that declares nothing would not be found
    # again (the tool may refuse - every time, without touching the file)
    if "B3" in by_name:
        for fname, sname in (("sample.py", "python"), ("sample.bat", "bat"), ("sample.c", "c"), ("sample.html", "html")):
            for kind in ("code", "comment", "empty"):
                add(fname, sname, kind, by_name["B3"], {"template": "nocon"}, "nothing-rendered:" + fname, must=False)
    # content that keeps the linter from reading a new header - a comment with a tag inside an ignore block (taken for the
    # existing header), a tag-like string with an unparseable expression: success may only be reported with a full read-back
    for fname, sname in (("sample.py", "python"), ("sample.c", "c"), ("sample.html", "html")):
        for kind in ("ignoredheader", "badexprbody"):
            add(fname, sname, kind, by_name["B1"], {}, "linter-cannot-read-back:" + kind, must=False)
    # a forced --style on files whose header goes to a .license sibling anyway (binary content, a type that takes no comments)
    for sname in ("html", "c", "python", "tex", "haskell"):
        if sname in styles:
            add("sample.png", sname, "binary", by_name["B1"], {"style": sname}, "style-on-sidecar:" + sname)
            add("sample.json", sname, "code", by_name["B1"], {"style": sname}, "style-on-sidecar:" + sname)
    # files of a type that takes no comments, whose text declares something all the same: the .license file that annotate
    # creates for them must not make the linter forget it
    for fname in ("sample.svg", "sample.csv", "sample.json"):
        for bn in ("B1", "B9"):
            add(fname, None, "rawtags", by_name[bn], {}, "uncommentable-with-tags:" + fname)
    # a holder whose name begins with four digits, with an explicit year: the year is part of the notice all the same
    for fname, sname in (("sample.py", "python"), ("sample.c", "c"), ("sample.png", None)):
        add(fname, sname, "code" if sname else "binary", by_name["B1"], {}, "digit-leading-holder:" + fname)
        cases[-1]["steps"] = [dict(st_, req=dict(st_["req"], holders=["1984 Publishing"], years=[2024])) for st_ in cases[-1]["steps"]]
    # an already-commented template whose blocks are separated by an empty line (open finding KF-C10-4)
    for kind in ("code", "empty", "comment"):
        add("sample.py", "python", kind, by_name["B1"], {"template": "pytwoblocks"}, "two-block-commented-template:sample.py", must=False)
    # a contributor with a character that ends a line for str.splitlines() only (U+2028, form feed): the tool may refuse it -
    # but a header that the next run takes apart must not be written
    for fname, sname in (("sample.py", "python"), ("sample.c", "c")):
        for brk in ("\u2028", "\x0c", "\x85"):
            add(fname, sname, "code", by_name["B9"], {}, "line-separator-in-contributor:" + fname, must=False)
            cases[-1]["steps"] = [dict(st_, req=dict(st_["req"], con=["Ann" + brk + "Lee"])) for st_ in cases[-1]["steps"]]
    # files longer than the 4 KiB window, in each line-ending convention (add() cycles LF, CRLF, CR)
    for fname, sname in (("sample.py", "python"), ("sample.c", "c"), ("sample.html", "html")):
        for _ in range(3):
            add(fname, sname, "longcode", by_name["B1"], {}, "long-file:" + fname)
    # a request with so many holders that the header outgrows the 4 KiB window the linter reads
    many = [f"Holder Number {i} With A Rather Long Name Incorporated <holder{i}@example.org>" for i in range(70)]
    for fname, sname in (("sample.py", "python"), ("sample.c", "c"), ("sample.html", "html"), ("sample.jl", "julia")):
        add(fname, sname, "code", by_name["B1"], {"multi_line": True} if sname == "julia" else {}, "huge-header:" + fname, must=False)
        cases[-1]["steps"] = [dict(st_, req=dict(st_["req"], holders=many)) for st_ in cases[-1]["steps"]]
    # every --style on a file of unknown type
    for sname, st in sorted(styles.items()):
        for kind in bodies:
            if kind == "shebang" and not st["shebangs"]:
                continue
            fl = {"style": sname}
            add("neutral.unknownext", sname, kind, bundle_cycle[len(cases) % len(bundle_cycle)], fl, "style:" + sname, unrec=True)
            if st["hasMulti"] and st["hasSingle"]:
                add("neutral.unknownext", sname, kind, by_name["B1"], dict(fl, multi_line=True), "style:" + sname, unrec=True)
    if rich:
        # option variety on a few representative types: prefixes, year forms, templates, merge, contributors
        reps = [("sample.py", "python"), ("sample.c", "c"), ("sample.html", "html"), ("sample.cpp", "cpp"), ("sample.jl", "julia"),
                ("sample.f", "f"), ("sample.tex", "tex"), ("sample.bat", "bat"), ("sample.ml", "ml"), ("sample.png", None),
                ("sample.json", None), ("sample.unknownext", None)]
        for fname, sname in reps:
            for b in singles:
                for kind in ("empty", "code", "ownheader", "owncon", "foreign"):
                    if kind in ("ownheader", "owncon", "foreign") and sname is None:
                        continue
                    fl = {}
                    if sname is None and fname.endswith("unknownext"):
                        fl = {"dot": "fallback"}
                    add(fname, sname, kind, b, fl, "rep:" + fname, unrec=fname.endswith("unknownext"))
            # --force-dot-license on a file that declares information in its own header: the new sibling must not make the
            # linter forget it
            if sname is not None:
                for kind in ("ownheader", "owncon", "foreign"):
                    add(fname, sname, kind, by_name["B9"], {"dot": "force"}, "rep:" + fname)
            if fname.endswith("unknownext"):
                # ... and --fallback-dot-license on a file of unknown type whose text carries tags (read by the linter as they are)
                for kind in ("ownheader", "owncon"):
                    add(fname, "python", kind, by_name["B9"], {"dot": "fallback"}, "rep:" + fname, unrec=True)
            for tmpl in ("full", "nocon"):
                add(fname, sname, "code", by_name["B9"], {"template": tmpl, **({"dot": "fallback"} if fname.endswith("unknownext") else {})},
                    "rep:" + fname, unrec=fname.endswith("unknownext"))
        add("sample.py", "python", "code", by_name["B9"], {"template": "pycommented"}, "rep:sample.py")
        # binary content behind a commentable name: the request lands in the .license sibling and is read back from there
        for fname, sname in reps[:6]:
            for bn in ("B1", "B9"):
                add(fname, sname, "binary", by_name[bn], {}, "rep:" + fname)
                add(fname, sname, "binary7", by_name[bn], {}, "rep:" + fname)
                # a text file that is not valid UTF-8: the tool may refuse it, but not write a header the linter reads differently
                add(fname, sname, "latin1", by_name[bn], {}, "rep:" + fname, must=False)
                cases[-1]["steps"] = [dict(st_, req=dict(st_["req"], holders=["Jos\u00e9 M\u00fcller S\u00e0rl"])) for st_ in cases[-1]["steps"]]
        # templates that lose information: whatever the tool does, success may only be reported with a full read-back
        for tmpl in ("pydrop", "pydroplic"):
            add("sample.py", "python", "code", by_name["B9"], {"template": tmpl}, "rep:sample.py", must=False)
        for fname, sname in reps[:5]:
            for tmpl in ("droplic", "dropcop", "dropall"):
                for kind in ("code", "ownheader"):
                    add(fname, sname, kind, by_name["B9"], {"template": tmpl}, "rep:" + fname, must=False)
        add("sample.py", "python", "ownheader", by_name["B1"], {"no_replace": True}, "rep:sample.py")
        # a holder that ends in blank + the mirror image of the style's line prefix reads back without it (the reader strips
        # an ASCII-art frame): the tool may refuse, but must not write it and report success
        for fname, sname, mark, fl in (("sample.py", "python", "#", {}), ("sample.c", "c", "*", {}), ("sample.cpp", "cpp", "//", {}),
                                       ("sample.hs", "haskell", "--", {}), ("sample.lisp", "lisp", ";;;", {}),
                                       ("sample.tex", "tex", "%", {}), ("sample.cpp", "cpp", "*", {"multi_line": True})):
            for kind in ("code", "ownheader"):
                add(fname, sname, kind, by_name["B1"], fl, "rep:" + fname, must=False)
                cases[-1]["steps"] = [dict(st_, req=dict(st_["req"], holders=["Mirror Corp " + mark])) for st_ in cases[-1]["steps"]]
                cases[-1]["label"] = anncases.label(file=fname, entry="mirrored-prefix-holder", body=kind, mark=mark, flavour=fl)
        # contributors that end in what a reader may take for a terminator or a frame: refused, or read back as given
        for fname, sname, conv in (("sample.py", "python", "Team C #"), ("sample.py", "python", "Team :)"), ("sample.c", "c", "Jane Doe {jd}"),
                                   ("sample.html", "html", "Docs Group ]]"), ("sample.bat", "bat", "Grupo MER"), ("sample.tex", "tex", "Half 50 %")):
            add(fname, sname, "code", by_name["B1"], {}, "rep:" + fname, must=False)
            cases[-1]["steps"] = [dict(st_, req=dict(st_["req"], con=[conv])) for st_ in cases[-1]["steps"]]
            cases[-1]["label"] = anncases.label(file=fname, entry="contributor-ending-like-a-terminator", contributor=conv)
        # --recursive over directories in which one file already has a .license sibling: the request belongs into the sibling
        side = "SPDX-FileCopyrightText: 2000 Sidecar Holder\n\nSPDX-License-Identifier: Zlib\n"
        rfiles = [{"name": "x/a.py", "kind": "code", "style_name": "python", "eol": "\n"},
                  {"name": "x/b.py", "kind": "code", "style_name": "python", "eol": "\n", "dotlicense": side},
                  {"name": "x/deep/c.rs", "kind": "ownheaderC", "style_name": "cpp", "eol": "\n"},
                  {"name": "y/d.html", "kind": "code", "style_name": "html", "eol": "\n", "dotlicense": side}]
        for b in singles:
            for cli in (["x", "y"], ["y", "x"], ["."]):
                seed = f"{ctx.seed}|rec|{len(cases)}"
                names = [f["name"] for f in rfiles]
                steps = [dict(anncases.step_of(b, rnd, names, {"extra": ["--recursive"]}, must=True, pick_seed=seed), cli_targets=cli)
                         for _ in range(repeats)]
                cases.append({"tid": len(cases) + 1, "steps": steps, "files": rfiles,
                              "label": anncases.label(files=names, cli=cli, bundle=b["name"], entry="recursive-with-sidecar")})
        # one invocation over several files with different pre-existing headers (each keeps its own, gets the request)
        trios = [[("a.py", "python", "ownheaderA"), ("b.py", "python", "ownheaderB"), ("c.py", "python", "code")],
                 [("a.c", "c", "ownheaderA"), ("b.html", "html", "ownheaderB"), ("c.py", "python", "ownheaderC")],
                 [("x/a.py", "python", "code"), ("x/b.py", "python", "ownheaderB"), ("y/c.rs", "cpp", "ownheaderC"), ("y/d.py", "python", "empty")]]
        for trio in trios:
            for b in singles:
                for perm in range(3):
                    names = [t[0] for t in trio]
                    names = names[perm:] + names[:perm]
                    seed = f"{ctx.seed}|multi|{len(cases)}"
                    steps = [anncases.step_of(b, rnd, names, {}, must=True, pick_seed=seed) for _ in range(repeats)]
                    cases.append({"tid": len(cases) + 1, "steps": steps,
                                  "files": [{"name": n, "kind": k, "style_name": s, "eol": "\n"} for n, s, k in trio],
                                  "label": anncases.label(files=names, bundle=b["name"], entry="multi-file")})
    return cases


def run_property(ctx: core.Ctx, prop: str, prefixes: tuple, rich: bool) -> int:
    q = ctx.quick
    rnd = random.Random(ctx.seed)
    ctx.assumptions += [
        "the linter's view of a file is observed through `reuse lint --json` (copyright notices, licence expressions) and "
        "the tool's own reader on the carrying file (contributors), as the property words it",
        "table entries whose names are not covered files (LICENSE*, *.license, *.spdx, ...) cannot be read back through "
        "the linter and are left out",
        "holders, contributors and years are drawn from small pools (incl. non-ASCII, punctuation, e-mail / URL suffixes)",
    ]
    mc = ctx.mc("AnnotateMC", "MC_Annotate.cfg")
    mc_viol = [{"clause": f"model:{v}", "kf": "", "detail": mc["out"][-2500:]} for v in mc["violated"]]
    gens = ctx.gen_json("AnnotateMC", ctx.cfg_with("Gen_Annotate.cfg", "one", MaxSteps=1))
    cases = sweep_cases(ctx, rnd, gens, 2 if q else 4, rich=rich)
    if prop == "C10":
        # one invocation over several files with different headers, repeated in fresh interpreters under different string
        # hash seeds (the visiting order of the files follows the seed)
        by_name = {g["hist"][0]["b"]["name"]: g["hist"][0]["b"] for g in gens if len(g["hist"]) == 1}
        trio = [("a.py", "python", "ownheaderA"), ("b.py", "python", "ownheaderB"), ("c.c", "c", "ownheaderC"), ("d.py", "python", "code")]
        names = [t[0] for t in trio]
        for bn in ("B1", "B2"):
            for seeds in ((0, 1, 2), (3, 6, 9), (5, 4, 7)) if q else [(a, a + 1, a + 2) for a in range(0, 30, 3)]:
                pick = f"{ctx.seed}|hs|{len(cases)}"
                steps = [dict(anncases.step_of(by_name[bn], rnd, names, {}, must=True, pick_seed=pick), hashseed=hs) for hs in seeds]
                cases.append({"tid": len(cases) + 1, "steps": steps,
                              "files": [{"name": n, "kind": k, "style_name": s_, "eol": "\n"} for n, s_, k in trio],
                              "label": anncases.label(files=names, bundle=bn, entry="multi-file-hash-seeds", seeds=list(seeds))})
    evl = ctx.pmap(annhist.run_history, cases, chunksize=8)
    events, dropped = [], 0
    for es in evl:
        # a file the linter does not list (excluded name, or still empty because the header went to a .license
        # sibling) is not a covered file: nothing can be read back through the linter
        if es and any(not f["post"]["listed"] and es[0]["exit"] == 0 for f in es[0]["files"]):
            dropped += 1
            continue
        events.extend(es)
    ctx.notes["cases_not_covered_files"] = dropped
    ctx.exhaustive = True
    for ev in events[:: max(1, len(events) // 4)][:4]:
        ctx.samples.append({"case": json.loads(ev["label"]), "step": ev["k"], "cmd": ev["cmd"], "exit": ev["exit"],
                            "post": {k: ev["files"][0]["post"][k] for k in ("cop", "lic", "con")}})
    ctx.validate("Trace_Annotate", "Trace_Annotate.cfg", events, group_key="tid")
    for r in ctx.rejects:
        if isinstance(r.get("detail"), str):
            try:
                r["detail"] = json.loads(r["detail"])
            except ValueError:
                pass
    ok_runs = sum(1 for e in events if e["exit"] == 0)
    n_wf = 0
    if prop == "C07":
        # Workflow.tla: annotate interleaved with download / lint / spdx, abstract state compared after every command
        wf = workflow.stage(ctx, prefixes)
        mc_viol += wf["mc_violations"]
        # Targets.tla: where the header of a file goes (file / sibling / nowhere), the whole table replayed
        tg = targets.stage(ctx, prefixes)
        mc_viol += tg["mc_violations"]
        n_wf = len(wf["events"]) + len(tg["events"])
    return ctx.finish(
        evaluations=len(events) + n_wf,
        distinct_nontrivial=len({e["label"] for e in events if e["exit"] == 0}),
        rule="every entry of the extension and file-name tables (read off the code) x bodies {empty, code, own comment, "
             "shebang} x bundles, every --style on an unknown type, --multi-line / --single-line where supported, "
             "--force-dot-license; " + ("representative types x all bundles x initial contents {empty, code, own header, "
             "own header with contributor, foreign tags} x templates; " if rich else "") +
             "each history repeats the identical command; non-trivial = histories in which annotate succeeded",
        mc_violations=mc_viol, only_prefixes=prefixes, extra={"successful_invocations": ok_runs})


def _covered(ev0: dict, f: dict) -> bool:
    # after a successful first step a covered file declares something; a file the linter never lists is not covered
    return bool(f["post"]["cop"] or f["post"]["lic"] or f["pre"]["cop"] or f["pre"]["lic"]) or ev0["exit"] != 0


def run(ctx: core.Ctx) -> int:
    return run_property(ctx, PROP, PREFIXES, rich=False)


def replay(ctx: core.Ctx, path: str) -> int:
    return core.generic_replay(ctx, path)
