"""C08 - annotate changes nothing but the header.

TLC: Header.tla (R = AnnotateRel, M = MAnnotate), HeaderGen.tla: M |= R for every body up to
MaxLines lines per style class; the same bodies are rendered in every concrete comment style of the
class (binding: the style table of the code), annotated for real, and Trace_C08 judges the observed
before/after line sequences."""
from __future__ import annotations

import json
import random
import shutil

import annmodel
import core


def run_case(case: dict) -> dict:
    st = case["style"]
    d = core.scratch_dir("c08-")
    ev = {"tid": case["tid"], "label": case["label"], "crash": "", "pre": case["body"], "replace": case["replace"],
          "st": {"shebIsComment": bool(st["shebangs"]) and st["shebIsComment"][min(case["sheb_idx"], len(st["shebangs"]) - 1)],
                 "name": st["name"]}}
    try:
        root = d / "root"
        root.mkdir()
        data, lines = annmodel.render_body(st, case["body"], case["eol"], case["final_nl"], case["bom"],
                                           case["sheb_idx"], case["tws_line"], case.get("quote", False), case.get("exotic", False), case.get("longfirst", 0))
        f = root / case.get("fname", "body")
        f.write_bytes(data)
        opts = ["--copyright", "New Holder", "--license", "MIT", "--year", "2024", "--style", st["name"]]
        if case.get("fname"):       # the style is left to the tool: what it makes of the NAME must not cost the file its content
            opts = opts[:-2]
        if not case["replace"]:
            opts.append("--no-replace")
        if case.get("multi_line") and st["hasMulti"]:
            opts.append("--multi-line")
        targets = [f]
        if case.get("with_binary") is not None:
            # the same invocation also names two binary files (their headers go to .license siblings): whatever the order in
            # which the tool visits the three, this file is treated as if it had been named alone
            for nm in ("aaa-logo.png", "zzz-photo.jpg"):
                (root / nm).write_bytes(b"\x89PNG\r\n\x1a\n\x00\x00\x00\rIHDR" + bytes(range(256)))
                targets.append(root / nm)
        r = annmodel.annotate(root, targets, opts, locale_c=bool(case.get("locale_c")), hashseed=case.get("with_binary"))
        after = f.read_bytes()
        if r["exc"]:
            ev["crash"] = r["exc"][-500:]
        ev["exit"] = r["exit"]
        ev["unchanged"] = after == data and not (root / (case.get("fname", "body") + ".license")).exists()
        pre = annmodel.split_lines(data)
        post = annmodel.split_lines(after)
        ids = [ln["id"] for ln in case["body"]]
        pre_lines = list(pre["lines"])
        ev["post"] = annmodel.project_post(pre_lines, ids, post)
        ev["facts"] = {"bomPre": pre["bom"], "bomPostFirst": post["bom"], "eolPre": pre["eol"], "eolPost": post["eol"],
                       "mixedPost": post["mixed"], "finalPre": pre["finalNL"], "finalPost": post["finalNL"]}
        ev["text"] = {"before": data.decode("utf-8", "replace")[:600], "after": after.decode("utf-8", "replace")[:900]}
        return ev
    finally:
        shutil.rmtree(d, ignore_errors=True)


def run(ctx: core.Ctx) -> int:
    q = ctx.quick
    rnd = random.Random(ctx.seed)
    ctx.assumptions += [
        "every non-blank line of a generated body carries a unique payload, so a line of the result is matched to at "
        "most one original line by exact bytes; empty lines are interchangeable",
        "allowed slack: blank / whitespace-only lines touching the old or new header position, trailing blanks of the "
        "line directly above the header, a final newline when the header ends the file",
        "mixed line endings within one file are outside the domain",
        "in a third of the cases a code line above the first one-line tagged comment quotes that comment's bytes in a string",
    ]
    maxl = 4 if q else 5
    mc = ctx.mc("HeaderGen", ctx.cfg_with("MC_C08.cfg", "t", MaxLines=maxl))
    mc_viol = [{"clause": f"model:{v}", "kf": "", "detail": mc["out"][-2500:]} for v in mc["violated"]]
    gens = ctx.gen_json("HeaderGen", ctx.cfg_with("Gen_C08.cfg", "t", MaxLines=3 if q else 4))
    gens_x = ctx.gen_json("HeaderGen", ctx.cfg_with("Gen_C08.cfg", "x", MaxLines=3 if q else 4, WithMcx="TRUE",
                                                   StyleClasses='{"M1", "B2"}'))
    gens_x = [g for g in gens_x if any(ln["k"] == "mcx" for ln in g["body"])]
    ctx.exhaustive = True
    styles = annmodel.style_table()
    by_class = {}
    for st in styles:
        for si in range(max(1, len(st["shebangs"]))):
            by_class.setdefault(annmodel.style_class(st, si), []).append((st, si))
    ctx.notes["style_classes"] = {k: sorted({s["name"] for s, _ in v}) for k, v in by_class.items()}
    cases = []
    eols = ["\n", "\r\n", "\r"]
    for g in gens + gens_x:
        members = by_class.get(g["st"], [])
        if not members:
            continue
        picks = members if (not q or len(g["body"]) <= 2) else rnd.sample(members, min(2, len(members)))
        for st, si in picks:
            n = len(cases)
            cases.append({"tid": n + 1, "style": st, "sheb_idx": si, "body": g["body"], "replace": g["replace"],
                          "with_binary": (n // 37) % 4 if n % 37 == 5 else None,
                          "eol": eols[n % 3], "final_nl": n % 4 != 0, "bom": n % 7 == 0,
                          "tws_line": (n % 5) if n % 2 else 0, "multi_line": n % 6 == 0, "quote": n % 3 == 1, "exotic": n % 4 == 3, "locale_c": n % 40 == 7, "longfirst": [0, 0, 0, 0, 4095, 0, 0, 0, 5000, 0, 0][n % 11],
                          "label": json.dumps({"style": st["name"], "class": g["st"], "replace": g["replace"],
                                               "kinds": [ln["k"] for ln in g["body"]], "eol": repr(eols[n % 3]),
                                               "bom": n % 7 == 0, "finalNL": n % 4 != 0, "quote": n % 3 == 1, "exotic": n % 4 == 3, "locale": "C" if n % 40 == 7 else "", "longfirst": [0, 0, 0, 0, 4095, 0, 0, 0, 5000, 0, 0][n % 11],
                                               **({"with_binary_hashseed": (n // 37) % 4} if n % 37 == 5 else {})})})
    # files whose NAME looks like one of the tool's own in another spelling (FILE.license is replaced as a whole - NOTES.LICENSE
    # is somebody's file), annotated without --style
    py = next(s_ for s_ in styles if s_["name"] == "python")
    for g in [g_ for g_ in gens if g_["st"] == annmodel.style_class(py, 0)][:12]:
        for fname in ("NOTES.LICENSE", "x.py.License", "third-party.LiCeNsE"):
            n = len(cases)
            cases.append({"tid": n + 1, "style": py, "sheb_idx": 0, "body": g["body"], "replace": g["replace"], "eol": "\n", "final_nl": True,
                          "bom": False, "tws_line": 0, "multi_line": False, "fname": fname,
                          "label": json.dumps({"style": "python", "class": g["st"], "replace": g["replace"], "kinds": [ln["k"] for ln in g["body"]],
                                               "eol": repr("\n"), "bom": False, "finalNL": True, "fname": fname})})
    events = ctx.pmap(run_case, cases, chunksize=64)
    for ev in events[:: max(1, len(events) // 4)][:4]:
        ctx.samples.append({"case": json.loads(ev["label"]), "before": ev["text"]["before"], "after": ev["text"]["after"],
                            "post": ev["post"]})
    texts = {e["tid"]: e.pop("text") for e in events}
    ctx.validate("Trace_C08", "Trace_C08.cfg", events)
    for r in ctx.rejects:
        if isinstance(r.get("detail"), str):
            try:
                r["detail"] = json.loads(r["detail"])
            except ValueError:
                pass
        if r.get("event"):
            r["event"] = dict(r["event"], text=texts.get(r["tid"]))
    skipped = sum(1 for e in events if e.get("exit") not in (0, None))
    return ctx.finish(
        evaluations=len(events),
        distinct_nontrivial=len({e["label"] for e in events if e.get("exit") == 0}),
        rule="bodies: every sequence of up to MaxLines line kinds per style class (TLC), incl. first-line declarations, "
             "indented / foreign / tagged comments, multi-line blocks, closer-plus-code lines; rendered in every concrete "
             "style of the class, x {replace, --no-replace}, rotating LF/CRLF/CR, final newline, BOM, trailing blanks, "
             "--multi-line; non-trivial = annotate succeeded (exit 0) and the result was judged",
        mc_violations=mc_viol, extra={"annotate_refused": skipped, "exhaustive_bound": {"mc_MaxLines": maxl}})


def replay(ctx: core.Ctx, path: str) -> int:
    payload = json.load(open(path))
    ev = payload["event"]
    lab = json.loads(ev["label"])
    st = next(s for s in annmodel.style_table() if s["name"] == lab["style"])
    case = {"tid": 1, "style": st, "sheb_idx": 0, "body": ev["pre"], "replace": ev["replace"], "eol": eval(lab["eol"]),
            "final_nl": lab["finalNL"], "bom": lab["bom"], "tws_line": 0, "multi_line": False, "quote": bool(lab.get("quote")), "exotic": bool(lab.get("exotic")), "locale_c": lab.get("locale") == "C", "longfirst": lab.get("longfirst", 0), "label": ev["label"], **({"fname": lab["fname"]} if lab.get("fname") else {}), "with_binary": lab.get("with_binary_hashseed")}
    e = run_case(case)
    print(json.dumps(e["text"], indent=1))
    e.pop("text")
    ctx.validate("Trace_C08", "Trace_C08.cfg", [e])
    return ctx.finish(evaluations=1, distinct_nontrivial=2, rule="replay of one recorded case")
