"""C19 - download never overwrites and supplies exactly the missing licences.

TLC: Download.tla (one step per critical section of put_license_in_file, a failure branch at every
step; NeverOverwrites, NoPartialFile, OnlyLicenseFiles, RefNeedsNoNetwork, exit status, termination) and
every initial state (pre-existing LICENSES/ x request set x network outcome per identifier x --source) as
a case.  Python replaces urllib.request.urlopen by a scripted stub, runs `reuse download` from several
working directories, snapshots project and an outside sentinel; Trace_C19 judges."""
from __future__ import annotations

import hashlib
import io
import json
import os
import random
import shutil
import subprocess
import urllib.error
import urllib.request
from pathlib import Path

import core
import workflow

POOL = {"A": ["MIT", "GPL-2.0", "Apache-2.0", "Nonexistent-1.0"], "B": ["0BSD", "CC0-1.0", "EUPL-1.2", "LGPL-2.1"],
        "LicenseRef-r": ["LicenseRef-custom", "LicenseRef-My.Own-1"]}


def body_of(ident: str) -> str:
    # (real licence texts hold copyright signs, typographic quotes and accents)
    return f"Licence text of {ident}\n" * 3 + "Copyright \u00a9 the authors \u2013 \u201cas is\u201d, na\u00efvely\n"


def sha(b: bytes) -> str:
    return hashlib.sha1(b).hexdigest()[:16]


def snapshot(top: Path) -> dict:
    snap = {}
    for x in sorted(top.rglob("*")):
        rel = x.relative_to(top).as_posix()
        if "/.git/" in "/" + rel + "/" or rel == "root/.git":
            continue
        if x.is_file() and not x.is_symlink():
            snap[rel] = sha(x.read_bytes())
    snap.setdefault("-", "-")
    return snap


class _Resp:
    def __init__(self, body: bytes, code=200):
        self._b = io.BytesIO(body)
        self._code = code

    def getcode(self):
        return self._code

    def read(self, *a):
        return self._b.read(*a)

    def __enter__(self):
        return self

    def __exit__(self, *a):
        return False


class _BrokenResp(_Resp):
    """The connection breaks while the body is being read."""

    def __init__(self, body: bytes, how: str):
        super().__init__(body)
        self._how = how

    def read(self, *a):
        import http.client
        if self._how == "reset":
            raise ConnectionResetError(104, "Connection reset by peer (scripted)")
        if self._how == "timeout":
            raise TimeoutError("The read operation timed out (scripted)")
        raise http.client.IncompleteRead(self._b.getvalue()[:10], 100)


def scripted(ident: str, out: str, u: str):
    """The stub network's answer for one identifier: ok | http | conn | reset | timeout | short."""
    if out == "ok":
        return _Resp(body_of(ident).encode())
    if out == "http":
        raise urllib.error.HTTPError(u, 404, "Not Found", None, None)
    if out in ("reset", "timeout", "short"):
        return _BrokenResp(body_of(ident).encode(), out)
    if out == "partial206":        # an answer that is not 200 and that urlopen does not turn into an error: not the licence text
        return _Resp(body_of(ident).encode()[: len(body_of(ident)) // 3], code=206)
    if out == "empty204":
        return _Resp(b"", code=204)
    raise urllib.error.URLError("connection refused (scripted)")


def run_case(case: dict) -> list:
    d = core.scratch_dir("c19-")
    events = []
    real_urlopen = urllib.request.urlopen
    try:
        root = d / "root"
        (root / "src").mkdir(parents=True)
        (d / "sentinel").mkdir()
        (d / "sentinel" / "keep.txt").write_text("outside the project\n")
        used = case["ids"]
        (root / "src" / "a.py").write_text("# SPDX-FileCopyrightText: 2020 Jane\n" + "".join(
            f"# SPDX-License-Identifier: {i}\n" for i in used["file"]) + "x = 1\n")
        if case["licdir"] != "absent":
            (root / "LICENSES").mkdir()
        for i in case["existing"]:
            (root / "LICENSES").mkdir(exist_ok=True)
            (root / "LICENSES" / f"{i}.txt").write_text("pre-existing text of " + i + "\n")
        srcdir = d / "sources"
        srcdir.mkdir()
        for i in case["source_has"]:
            (srcdir / f"{i}.txt").write_text("custom text of " + i + "\n")
        if case["git"]:
            env = dict(os.environ, GIT_CONFIG_GLOBAL="/dev/null", GIT_CONFIG_SYSTEM="/dev/null", HOME=str(d))
            subprocess.run(["git", "init", "-q"], cwd=root, env=env, check=True, capture_output=True)
        netlog = []

        def fake_urlopen(url, *a, **k):
            u = url if isinstance(url, str) else url.full_url
            name = u.rsplit("/", 1)[-1]
            ident = name[:-4] if name.endswith(".txt") else name
            netlog.append(ident)
            return scripted(ident, case["net"].get(ident, "http"), u)

        urllib.request.urlopen = fake_urlopen
        for k, step in enumerate(case["steps"], 1):
            del netlog[:]
            pre = snapshot(d)
            cwd = {"root": root, "sub": root / "src", "licenses": root / "LICENSES", "outside": d,
                   "otherlicenses": d / "neighbour" / "LICENSES"}[step["cwd"]]      # the LICENSES/ of a neighbouring checkout
            cwd.mkdir(exist_ok=True, parents=True)
            if step["cwd"] == "otherlicenses":
                pre = snapshot(d)
            if step["cwd"] == "licenses":
                pre = snapshot(d)
            args = []
            if step["root_arg"]:
                args += ["--root", str(root)]
            args.append("download")
            if step["all"]:
                args.append("--all")
            if step.get("output"):
                args += ["--output", str(d / step["output"])]
            if step["use_source"]:
                args += ["--source", str(srcdir / (step["source_file"] + ".txt")) if step.get("source_file") else str(srcdir)]
            args += step["given"]
            if step.get("locale_c"):
                # a fresh interpreter whose locale is not UTF-8 (the texts it writes are UTF-8 all the same), same scripted network
                nl = d / "netlog.txt"
                nl.write_text("")
                r = core.run_reuse_subprocess(args, cwd=cwd, script=str(Path(__file__).resolve().parent.parent / "stubnet_main.py"),
                                              env=dict(core.C_LOCALE_ENV, REUSE_VERIF_NET=json.dumps(case["net"]), REUSE_VERIF_NETLOG=str(nl)))
                netlog.extend(x for x in nl.read_text().split() if x)
                nl.unlink()
            else:
                r = core.run_reuse(args, cwd=cwd)
            post = snapshot(d)
            reqs = []
            given = step["given"] if not step["all"] else step["expect_all"]
            for g in given:
                ident = g[:-1] if g.endswith("+") else g
                is_ref = ident.startswith("LicenseRef-")
                dest = ("root/LICENSES/" + ident + ".txt") if not step.get("output") else step["output"]
                has_src = ident in case["source_has"] if not step.get("source_file") else True
                body = sha(body_of(ident).encode()) if not is_ref else (
                    sha(("custom text of " + (step.get("source_file") or ident) + "\n").encode()) if step["use_source"] else sha(b""))
                reqs.append({"given": g, "id": ident, "isRef": is_ref, "net": "none" if is_ref else case["net"].get(ident, "http"),
                             "sourceHas": has_src, "dest": dest, "body": body})
            missing_after = []
            if step["all"] and r["exit"] == 0:
                lr = core.run_reuse(["--root", str(root), "--no-multiprocessing", "lint", "--json"])
                try:
                    missing_after = sorted(json.loads(lr["out"])["non_compliant"]["missing_licenses"])
                except Exception:  # noqa: BLE001
                    missing_after = ["?lint-failed"]
            events.append({"tid": case["tid"], "k": k, "label": case["label"], "crash": (r["exc"] or "")[-400:], "exit": r["exit"],
                           "request": reqs, "useSource": step["use_source"], "output": step.get("output") or "", "all": step["all"],
                           "pre": pre, "post": post, "netlog": sorted(set(netlog)), "missingAfter": missing_after,
                           "out": (r["out"] + r["err"])[-200:]})
        return events
    finally:
        urllib.request.urlopen = real_urlopen
        shutil.rmtree(d, ignore_errors=True)


def run(ctx: core.Ctx) -> int:
    q = ctx.quick
    rnd = random.Random(ctx.seed)
    ctx.assumptions += [
        "the network is urllib.request.urlopen replaced by a scripted stub (per identifier: body, HTTP 404, connection refused, "
        "connection reset / timeout / short read while the body is being read, answers 206 with a third of the text and 204 without any)",
        "the destination prescribed by the documentation is <root>/LICENSES/<id>.txt, or the --output path",
    ]
    mc = ctx.mc("Download", "MC_C19.cfg")
    mc_viol = [{"clause": f"model:{v}", "kf": "", "detail": mc["out"][-2500:]} for v in mc["violated"]]
    gens = ctx.gen_json("Download", "Gen_C19.cfg")
    ctx.exhaustive = True
    if q:
        gens = rnd.sample(gens, 700)
    cases = []
    for gi, g in enumerate(gens):
        pick = {k: v[(gi // 3 + j) % len(v)] for j, (k, v) in enumerate(POOL.items())}
        req = [pick[i] for i in g["request"]]
        plus = gi % 4 == 1
        given = [(i + "+") if plus and not i.startswith("LicenseRef-") else i for i in req]
        net = {pick[i]: o for i, o in g["net"].items()}
        for kk, ident in enumerate(sorted(net)):      # a connection can also break while the text is being read
            if net[ident] == "conn" and (gi + kk) % 3:
                net[ident] = ["reset", "timeout", "short"][(gi + kk) % 3 - 1 if (gi // 3) % 2 else 2]
        for kk, ident in enumerate(sorted(net)):      # ... or the server answers with another 2xx status than 200
            if net[ident] == "http" and (gi + kk) % 4 == 1:
                net[ident] = ["partial206", "empty204"][(gi // 4) % 2]
        if "Nonexistent-1.0" in net:
            net["Nonexistent-1.0"] = "http"           # the SPDX repository has no such file
        existing = [pick[i[len("LICENSES/"):-4]] for i in g["existing"]]
        src_has = [pick["LicenseRef-r"]] if g["useSource"] and gi % 2 == 0 else []
        mode = gi % 6
        step = {"given": given, "all": False, "use_source": bool(g["useSource"]),
                "cwd": ["root", "sub", "licenses", "outside", "root", "otherlicenses"][mode], "root_arg": mode in (3, 4, 5),
                "locale_c": gi % 16 == 4}
        git = mode in (1, 2)                 # from a sub-directory or from LICENSES/ the root is found through the VCS
        steps = [step]
        if gi % 3 == 0:                      # a second, identical invocation: everything exists now
            steps.append(dict(step))
        cases.append({"tid": len(cases) + 1, "ids": {"file": ["MIT"]}, "licdir": "empty" if gi % 2 else "absent",
                      "existing": existing, "source_has": src_has, "net": net, "git": git, "steps": steps,
                      "label": json.dumps({"given": given, "existing": existing, "net": net, "source": g["useSource"], "cwd": step["cwd"]})})
    # --all: the file uses a set of identifiers, some provided already, network outcomes vary
    for j in range(60 if q else 600):
        used = rnd.sample(["MIT", "0BSD", "Apache-2.0+", "GPL-2.0", "LicenseRef-custom", "CC0-1.0"], rnd.randint(1, 4))
        base = [u.rstrip("+") for u in used]
        existing = [b for b in base if rnd.random() < 0.3]
        net = {b: rnd.choice(["ok", "ok", "http", "conn", "reset", "short"]) for b in base}
        missing = [u for u in used if u.rstrip("+") not in existing]
        cases.append({"tid": len(cases) + 1, "ids": {"file": used}, "licdir": "absent", "existing": existing, "source_has": [],
                      "net": net, "git": False,
                      "steps": [{"given": [], "all": True, "expect_all": missing, "use_source": False, "cwd": "root", "root_arg": True}],
                      "label": json.dumps({"all": used, "existing": existing, "net": net})})
    # --output
    for j, ident in enumerate(["MIT", "LicenseRef-custom", "0BSD+"]):
        for pre_exists in (False, True):
            c = {"tid": len(cases) + 1, "ids": {"file": ["MIT"]}, "licdir": "absent", "existing": [], "source_has": [],
                 "net": {ident.rstrip("+"): "ok"}, "git": False,
                 "steps": [{"given": [ident], "all": False, "use_source": False, "cwd": "root", "root_arg": True, "output": "out/text.txt"}],
                 "label": json.dumps({"output": ident, "pre_exists": pre_exists})}
            if pre_exists:
                c["steps"] = c["steps"] * 2
            cases.append(c)
    evl = ctx.pmap(run_case, cases, chunksize=8, daemon=False)      # `download --all` starts the tool's own process pool
    events = [e for es in evl for e in es]
    for ev in events[:: max(1, len(events) // 4)][:4]:
        ctx.samples.append({"case": json.loads(ev["label"]), "exit": ev["exit"], "netlog": ev["netlog"],
                            "new_files": sorted(set(ev["post"]) - set(ev["pre"]))})
    ctx.validate("Trace_C19", "Trace_C19.cfg", events, group_key="tid")
    for r in ctx.rejects:
        if isinstance(r.get("detail"), str):
            try:
                r["detail"] = json.loads(r["detail"])
            except ValueError:
                pass
    # Workflow.tla: cross-command behaviours replayed on the real tool, abstract state compared after every command
    wf = workflow.stage(ctx, ('C19.', 'crash'))
    mc_viol = list(mc_viol) + wf["mc_violations"]
    return ctx.finish(
        evaluations=len(events) + len(wf["events"]),
        distinct_nontrivial=len({e["label"] for e in events if e["exit"] != 0 or e["netlog"]}),
        rule="Download.tla initial states: pre-existing LICENSES/ entries x request set over {licence, licence, LicenseRef-} x "
             "network outcome per identifier {ok, HTTP error, connection error} x --source (quick: seeded sample of 700), "
             "concretised with valid / deprecated / unknown / '+' identifiers, run from root / sub-directory / LICENSES/ / "
             "outside with and without --root and Git, every third case invoked twice; --all on files using 1-4 identifiers; "
             "--output; non-trivial = a failure or a network request occurred",
        mc_violations=mc_viol)


def replay(ctx: core.Ctx, path: str) -> int:
    if str(json.load(open(path)).get("runner", "")).startswith("workflow:"):
        return core.generic_replay(ctx, path)
    return core.generic_replay(ctx, path)
