"""C11 - a failed annotation leaves the tree as it was and shows in the exit status.

TLC: Annotate.tla with failing subsets (FailedUntouched, ExitReflectsFailure as properties of the
model); AnnotateMC prints every (bundle, file set, failing subset) of one invocation over three files.
Python gives each failing file a concrete failure class, adds invocation-wide failure classes and usage
errors, every .license option; tree snapshots around the run; Trace_Annotate judges (C11 clauses)."""
from __future__ import annotations

import json
import random

import anncases
import annhist
import core
import targets

PROP = "C11"
PREFIXES = ("C11.", "crash")
OK_FILES = {"f1": ("one.py", "python", "code"), "f2": ("two.sh", "python", "shebang"), "f3": ("sub/three.py", "python", "ownheaderA")}
# per-file failure classes: (file name, style, initial content, extra flavour)
FAIL_FILES = {
    "terminator": {"f1": ("one.c", "c", "code"), "f2": ("two.css", "c", "comment"), "f3": ("sub/three.ml", "ml", "code")},
    # styles whose closers contain braces (the diagnostic that quotes such a header line must survive that too)
    "terminator-brace": {"f1": ("refs.bib", "bibtex", "code"), "f2": ("view.hbs", "handlebars", "code"), "f3": ("sub/page.jinja2", "jinja", "code")},
}
TERMINATOR_HOLDER = "Jane */ Doe *) Inc."
TERMINATOR_HOLDERS = {"terminator": TERMINATOR_HOLDER, "terminator-brace": "Jane {Doe} #} and --}} Ltd"}


def build(ctx, rnd, gens):
    cases = []

    def add(files, steps, **lab):
        cases.append({"tid": len(cases) + 1, "files": files, "steps": steps, "label": anncases.label(**lab)})

    for g in gens:
        h = g["hist"][0]
        b, fs, failed = h["b"], h["fs"], set(g["failed"])
        if b["skip"] or b["merge"] or not b["cop"]:
            continue
        for cls in ("terminator", "terminator-brace"):
            if not failed:
                continue
            for dot in (None, "force", "fallback"):
                files, names, must = [], [], {}
                for f in fs:
                    fname, sname, kind = (FAIL_FILES[cls] if f in failed else OK_FILES)[f]
                    if dot == "force" and kind.startswith("ownheader"):
                        kind = "code"          # a .license sibling shadows a header inside the file by specification
                    files.append({"name": fname, "kind": kind, "style_name": sname})
                    names.append(fname)
                    must[fname] = f not in failed
                for order in (names, names[::-1]):
                    step = anncases.step_of(b, rnd, list(order), {"dot": dot} if dot else {}, pick_seed=f"{ctx.seed}|{len(cases)}")
                    step["req"]["holders"] = [TERMINATOR_HOLDERS[cls]]
                    step["must"] = must
                    # a holder carrying the style's comment terminator cannot be written as a valid header of that file
                    # (with --force-dot-license nothing is commented: the sibling takes any holder)
                    step["mustfail"] = {FAIL_FILES[cls][f][0]: True for f in fs if f in failed and dot != "force"}
                    add(files, [step], cls=cls, bundle=b["name"], targets=order, failing=sorted(failed), dot=dot)
    # invocation-wide failure classes and usage errors, over three good files (+ one special file)
    good = [{"name": n, "kind": k if not k.startswith("ownheader") else "code", "style_name": s} for n, s, k in OK_FILES.values()]
    good_own = [{"name": n, "kind": k, "style_name": s} for n, s, k in OK_FILES.values()]
    names = [f["name"] for f in good]
    b1 = {"name": "B1", "cop": [{"pfx": "spdx", "y1": 2024, "y2": 2024, "holder": "H1"}], "lic": ["MIT"], "con": [], "merge": False, "skip": False}
    for dot in (None, "force", "fallback"):
        base = {"dot": dot} if dot else {}
        for tmpl in ("droplic", "dropcop", "dropall", "pydrop", "pydroplic"):
            step = anncases.step_of(b1, rnd, names, dict(base, template=tmpl), must=False)
            step["expect"] = "fail"
            add(good if dot == "force" else good_own, [step], cls="template-" + tmpl, dot=dot)
        if dot != "force":
            # a template that loses information only for the file that already has a holder of its own: that file is refused
            # and left alone (no second header on top of the first), the others are processed, exit status 1
            step = anncases.step_of(b1, rnd, names, dict(base, template="firstcop"), must=True)
            step["must"]["sub/three.py"] = False
            step["mustfail"] = {"sub/three.py": True}
            add(good_own, [step], cls="template-loses-one-holder-of-two", dot=dot)
        for extra, cname in ((["--single-line", "--multi-line"], "mutex-line"), (["--exclude-year"], "mutex-year"),
                             (["--skip-unrecognised", "--fallback-dot-license"] if dot != "fallback" else ["--force-dot-license"], "mutex-dot"),
                             (["--template", "does-not-exist"], "template-missing"), (["--multi-line"], "multi-unsupported")):
            step = anncases.step_of(b1, rnd, names, dict(base, extra=extra), must=False)
            step["expect"] = "usage"
            add(good, [step], cls="usage-" + cname, dot=dot)
        # a file of unknown type among good ones
        unk = good + [{"name": "data.unknownext", "kind": "code", "style_name": None, "unrecognised": True}]
        for pos in (0, 1, 3):
            order = names[:pos] + ["data.unknownext"] + names[pos:]
            step = anncases.step_of(b1, rnd, order, base, must=True)
            step["must"]["data.unknownext"] = False
            if dot is None:
                step["must"] = {n: False for n in order}     # usage error: nothing is processed
                step["expect"] = "usage"
            add(unk, [step], cls="unrecognised", dot=dot, position=pos)
            step2 = anncases.step_of(b1, rnd, order, dict(base, skip_unrecognised=True) if dot is None else base, must=True)
            step2["must"]["data.unknownext"] = dot is not None
            add(unk, [step2], cls="unrecognised-skipped", dot=dot, position=pos)
        # a file recognised by its NAME next to an extensionless file of unknown type: a usage error whatever order the tool
        # visits them in (the order follows the string hash seed: fresh interpreters)
        if dot is None:
            mk = good + [{"name": "Makefile", "kind": "code", "style_name": "python"}, {"name": "Dockerfile", "kind": "code", "style_name": "python"},
                         {"name": "NOTES", "kind": "code", "style_name": None, "unrecognised": True}]
            for hs in (0, 1, 2, 3, 5, 8):
                order = ["Makefile", "NOTES", "Dockerfile"] + names[:1]
                step = dict(anncases.step_of(b1, rnd, order, base, must=False), hashseed=hs)
                step["expect"] = "usage"
                add(mk, [step], cls="name-recognised-next-to-unrecognised", dot=dot, hashseed=hs)
        # a project template that renders everything: holders and contributors with '<', '>', '&' go through unharmed
        step = anncases.step_of(b1, rnd, names, dict(base, template="full"), must=True)
        step["req"]["holders"] = ["R&D Team <rd@example.org>"]
        step["req"]["con"] = ["Bob & Alice <ba@example.org>"]
        add(good, [step], cls="full-template-with-markup-characters", dot=dot)
        # binary content behind a commentable name among good files: documented to go to a .license sibling, so every
        # file of the invocation is processed and the exit status is 0
        binf = good + [{"name": "blob.py", "kind": "binary", "style_name": "python"}]
        for pos in (0, 2, 3):
            order = names[:pos] + ["blob.py"] + names[pos:]
            add(binf, [anncases.step_of(b1, rnd, order, base, must=True)], cls="binary-among-good", dot=dot, position=pos)
        # --single-line / --multi-line with file types of mixed capability: a usage error whatever the argument order
        mixed = [{"name": "alpha.py", "kind": "code", "style_name": "python"}, {"name": "page.html", "kind": "code", "style_name": "html"},
                 {"name": "beta.py", "kind": "comment", "style_name": "python"}, {"name": "prog.c", "kind": "code", "style_name": "c"},
                 {"name": "w/gamma.hs", "kind": "code", "style_name": "haskell"}, {"name": "w/delta.css", "kind": "code", "style_name": "c"}]
        for flag in ("--single-line", "--multi-line"):
            for k in range(6):
                sel = rnd.sample(mixed, 4)
                if not ({f["style_name"] for f in sel} & {"python", "haskell"}) or not ({f["style_name"] for f in sel} & {"html", "c"}):
                    sel = [mixed[0], mixed[1], mixed[3], mixed[4]]
                order = [f["name"] for f in sel]
                step = anncases.step_of(b1, rnd, order, dict(base, extra=[flag]), must=False)
                step["expect"] = "usage"
                add(sel, [step], cls="usage-mixed" + flag, dot=dot, order=order)
        # a holder / contributor with a line break in it cannot be one notice: an invalid option value
        # an expression the parser stumbles over is a usage error like any other unparseable one
        step = anncases.step_of(b1, rnd, names, base, must=False)
        step["req"]["lic"] = ["()"]
        step["expect"] = "usage"
        add(good, [step], cls="usage-expression-parens", dot=dot)
        # a holder that cannot be written as UTF-8 (an undecodable byte of the command line): refused, and no file emptied
        step = anncases.step_of(b1, rnd, names, base, must=False)
        step["req"]["holders"] = ["Jane \udcff Doe"]
        step["expect"] = "fail"
        add(good, [step], cls="holder-not-encodable", dot=dot)
        for what, brk in (("holders", "\n"), ("con", "\n"), ("con", "\u2028"), ("holders", "\x0c")):
            step = anncases.step_of(b1, rnd, names, base, must=False)
            step["req"][what] = ["Jane Doe" + brk + "and friends"]
            # (any character that ends a line - also form feed, U+2028 - is refused before a file is looked at)
            step["expect"] = "usage"
            add(good, [step], cls="usage-line-break-in-" + what + "-" + repr(brk).strip("'"), dot=dot)
        # nothing requested at all
        step = anncases.step_of(b1, rnd, names, base, must=False)
        step["req"].update({"holders": [], "lic": [], "con": [], "years": [2024]})
        step["expect"] = "usage"
        add(good, [step], cls="usage-nothing-requested", dot=dot)
    return cases


def run(ctx: core.Ctx) -> int:
    rnd = random.Random(ctx.seed)
    ctx.assumptions += [
        "anticipated failure reasons are provoked concretely: holder containing the comment terminator in styles that only "
        "have multi-line comments, templates that drop information, an existing header with an unparseable expression, "
        "unknown file types, unsupported --single-line/--multi-line, mutually exclusive options, missing template",
        "R is outcome-conditional: each file is either complete (declares its old information plus the request) or "
        "byte-identical with no new sibling; files without a reason to fail must be complete; exit 0 iff no file failed; "
        "exit 2 only with an untouched tree",
    ]
    mc = ctx.mc("AnnotateMC", "MC_Annotate.cfg")
    mc_viol = [{"clause": f"model:{v}", "kf": "", "detail": mc["out"][-2500:]} for v in mc["violated"]]
    gens = ctx.gen_json("AnnotateMC", "Gen_C11.cfg")
    ctx.exhaustive = True
    cases = build(ctx, rnd, gens)
    evl = ctx.pmap(annhist.run_history, cases, chunksize=8)
    events = [e for es in evl for e in es]
    for ev in events[:: max(1, len(events) // 5)][:5]:
        ctx.samples.append({"case": json.loads(ev["label"]), "cmd": ev["cmd"], "exit": ev["exit"], "treeUnchanged": ev["treeUnchanged"],
                            "files": [{"name": f["name"], "changed": f["pre"]["sha"] != f["post"]["sha"],
                                       "sibling": [f["pre"]["licsha"], f["post"]["licsha"]]} for f in ev["files"]]})
    ctx.validate("Trace_Annotate", "Trace_Annotate.cfg", events, group_key="tid")
    for r in ctx.rejects:
        if isinstance(r.get("detail"), str):
            try:
                r["detail"] = json.loads(r["detail"])
            except ValueError:
                pass
    # Targets.tla: the whole decision table "kind of file x what FILE.license is x dot-license option x --style" replayed
    tg = targets.stage(ctx, PREFIXES)
    mc_viol = list(mc_viol) + tg["mc_violations"]
    return ctx.finish(
        evaluations=len(events) + len(tg["events"]),
        distinct_nontrivial=len({e["label"] for e in events if e["exit"] != 0}),
        rule="one invocation over up to three files: every file set x failing subset (TLC) x {terminator in holder, "
             "terminator in holder} x {no, --force-dot-license, --fallback-dot-license} x both argument orders; "
             "information-dropping templates, usage errors (mutually exclusive options, unsupported line mode, missing "
             "template, nothing requested), unknown file type at every position with and without skip/fallback; "
             "non-trivial = runs that ended with a non-zero exit status",
        mc_violations=mc_viol, only_prefixes=PREFIXES, extra={"failing_runs": sum(1 for e in events if e["exit"] != 0)})


def replay(ctx: core.Ctx, path: str) -> int:
    return core.generic_replay(ctx, path)
