"""C12 - ignore blocks hide exactly what they enclose.

TLC: IgnoreBlock.tla (R = scanner state machine, M = recursive filter, M |= R up to MaxLen),
generation of every token sequence x rendering form, trace validation (Trace_C12).
Python: renders tokens to text, runs reuse.extract.extract_reuse_info on the text and on
its block-free twin (the twin's index list comes from TLC's `vis`), projects values back to
token indices."""
from __future__ import annotations

import json
import random
import re

import core

LICS = ["MIT", "0BSD", "ISC", "Zlib", "Apache-2.0", "CC0-1.0", "GPL-3.0-or-later", "BSD-3-Clause",
        "MPL-2.0", "EUPL-1.2", "Unlicense", "AGPL-3.0-only", "LGPL-2.1-or-later", "CC-BY-4.0",
        "BSL-1.0", "Artistic-2.0", "ECL-2.0", "OFL-1.1", "PostgreSQL", "Vim", "W3C", "X11", "curl", "WTFPL"]
PREFIX = {"bare": "", "hash": "# ", "slashes": "// ", "tight": "", "file": "# ", "filepoison": "# ", "skip": "# ", "sidecar": ""}
PAD = "x" * 4200
S, E = "REUSE-IgnoreStart", "REUSE-IgnoreEnd"  # REUSE-IgnoreStart (keeps this file lint-clean)


def tok_text(tok: str, i: int, plain: bool = False) -> str:
    if tok == "S":
        return S
    if tok == "E":
        return E
    if tok == "L":
        return f"SPDX-License-Identifier: {LICS[(i - 1) % len(LICS)]}"
    if tok == "C":
        return f"SPDX-FileCopyrightText: {2000 + i} Holder{i}"
    if tok == "K":
        return f"SPDX-FileContributor: Contrib{i}"
    if tok == "T":
        # plain text - also when it looks like a marker in another capitalisation, or holds letters whose lower-case form
        # is longer than the letter (U+0130)
        if plain and i % 6 == 2:
            # inside a licence value the third-party expression parser garbles such letters (differently for different
            # runs of blanks): there the look-alike stays ASCII, so that full text and twin are compared on what reuse does
            return f"Reuse-IgnoreEnd{i} Ibrahim"
        # ... or is one of the snippet markers (which say how much of a file is read, not what a block hides)
        return [f"text{i}", f"see https://reuse.software/faq/#reuse-ignorestart{i}", f"Reuse-IgnoreEnd{i} \u0130brahim \u0130nan\u00e7 \u0130\u015f\u0131k",
                f"REUSE-IGNORESTART{i} heading", "SPDX-SnippetBegin", "SPDX-SnippetEnd"][i % 6]
    raise ValueError(tok)


def render(toks: list, idxs: list, form: str, vis: list = None) -> str:
    """Text of the tokens with original indices idxs: tokens on a line are joined by one blank
    (form 'tight': adjacent markers touch), every line starts with the form's comment prefix.
    Form 'file': the first T token carries > 4 KiB of padding (so blocks straddle the 4096-byte window)."""
    pre = PREFIX[form]
    padded = next((i for i, t in enumerate(toks, 1) if t == "T"), 0) if form in ("file", "filepoison") else 0
    lines = [""]
    prev = None
    plain, in_value = set(), False        # T tokens that end up inside a licence value once the blocks are gone
    for i in (idxs if vis is None else vis):
        if toks[i - 1] == "N":
            in_value = False
        elif toks[i - 1] == "L":
            in_value = True
        elif in_value:
            plain.add(i)
    for i in idxs:
        t = toks[i - 1]
        if t == "N":
            lines.append("")
            prev = None
            continue
        txt = tok_text(t, i, i in plain) + (" " + PAD if i == padded else "")
        if prev is None:
            lines[-1] += txt
        elif form == "tight" and prev in "SE" and t in "SE":
            lines[-1] += txt
        else:
            lines[-1] += " " + txt
        prev = t
    return "\n".join(pre + ln for ln in lines)


_WS = re.compile(r"[ \t]+")


def project(info, err: bool) -> dict:
    """Observation -> abstract: token index of every value read (0 = belongs to no token)."""
    out = {"err": err, "lic": [], "cop": [], "con": [], "raw": [], "has": "na"}
    if err:
        return out
    for ex in info.spdx_expressions:
        s = str(ex)
        out["raw"].append("L:" + _WS.sub(" ", s))
        hits = [j for j, lic in enumerate(LICS) if lic == s]
        out["lic"].append(-1 if not hits else hits[0])
    for c in info.copyright_lines:
        out["raw"].append("C:" + _WS.sub(" ", c))
        m = re.fullmatch(r"SPDX-FileCopyrightText: (\d{4}) Holder(\d+)", c)
        out["cop"].append(int(m.group(2)) if m and int(m.group(1)) == 2000 + int(m.group(2)) else 0)
    for c in info.contributor_lines:
        out["raw"].append("K:" + _WS.sub(" ", c))
        m = re.fullmatch(r"Contrib(\d+)", c)
        out["con"].append(int(m.group(1)) if m else 0)
    out["raw"].sort()
    return out


def observe(text: str, toks: list) -> dict:
    from boolean.boolean import ParseError
    from license_expression import ExpressionError
    from reuse.extract import contains_reuse_info, extract_reuse_info
    try:       # the yes/no question annotate asks ("does this text hold REUSE information?") sees the same text
        has = "yes" if contains_reuse_info(text) else "no"
    except Exception as exc:  # noqa: BLE001
        has = "CRASH:" + type(exc).__name__
    try:
        info = extract_reuse_info(text)
        o = project(info, False)
    except (ExpressionError, ParseError):
        return dict(project(None, True), has=has)
    except Exception as exc:  # noqa: BLE001 - whatever the code under test raises is an observation (an error), not a harness failure
        o = project(None, True)
        o["raw"] = ["CRASH:" + type(exc).__name__]
        return dict(o, has=has)
    o["has"] = has
    # licence pool index -> token index (a licence token at index i uses LICS[(i-1) % n])
    lic = []
    for j in o["lic"]:
        cands = [i for i, t in enumerate(toks, 1) if t == "L" and (i - 1) % len(LICS) == j] if j >= 0 else []
        lic.append(cands[0] if len(cands) == 1 else 0)
    o["lic"] = lic
    return o


def observe_file(text: str, toks: list, poison: bool = False, sidecar: bool = False) -> dict:
    """The same observation through the CLI: a one-file project read by `reuse lint --json`.
    The file ends with an SPDX snippet marker, so the whole file is to be scanned."""
    import shutil
    d = core.scratch_dir("c12-")
    try:
        if sidecar:      # the text is the .license sibling of a file that holds nothing itself
            (d / "f.py").write_bytes(b"\x00\x01\x02 binary payload \xff\xfe" * 8)
            (d / "f.py.license").write_text(text + "\nSPDX-SnippetBegin\n")
        else:
            (d / "f.py").write_text(("# SPDX-License-Identifier: MIT OR\n" if poison else "") + text + "\n# SPDX-SnippetBegin\n")
        r = core.run_reuse(["--root", str(d), "--no-multiprocessing", "lint", "--json"])
        if r["exc"] or r["exit"] not in (0, 1):
            return {"err": True, "lic": [], "cop": [], "con": [], "raw": ["CRASH:" + str(r["exc"] or r["exit"])[-200:]], "has": "na"}
        rep = json.loads(r["out"])
        files = [f for f in rep["files"] if f["path"] == "f.py"]
        out = {"err": False, "lic": [], "cop": [], "con": [], "raw": [], "has": "na"}
        if not files:
            out["raw"].append("NOFILE")
            return out
        f = files[0]
        for ex in f["spdx_expressions"]:
            out["raw"].append("L:" + _WS.sub(" ", ex["value"]))
            hits = [j for j, lic in enumerate(LICS) if lic == ex["value"]]
            cands = [i for i, t in enumerate(toks, 1) if t == "L" and hits and (i - 1) % len(LICS) == hits[0]]
            out["lic"].append(cands[0] if len(cands) == 1 else 0)
        for c in f["copyrights"]:
            out["raw"].append("C:" + _WS.sub(" ", c["value"]))
            m = re.fullmatch(r"SPDX-FileCopyrightText: (\d{4}) Holder(\d+)", c["value"])
            out["cop"].append(int(m.group(2)) if m and int(m.group(1)) == 2000 + int(m.group(2)) else 0)
        # contributors are not part of the lint report; a file with an unparseable expression reports nothing
        out["raw"].sort()
        return out
    finally:
        shutil.rmtree(d, ignore_errors=True)


def observe_skip(text: str) -> dict:
    """`reuse annotate --skip-existing`: does the tool find REUSE information in the file?  (It says so when it skips.)"""
    import shutil
    d = core.scratch_dir("c12s-")
    try:
        (d / "f.py").write_text(text + "\n")
        r = core.run_reuse(["--root", str(d), "annotate", "--skip-existing", "--copyright", "New Holder", "--license", "MIT", str(d / "f.py")])
        out = {"err": False, "lic": [], "cop": [], "con": [], "raw": [], "has": "na"}
        if r["exc"]:
            out["has"] = "CRASH:" + str(r["exc"])[-120:]
        else:
            out["has"] = "yes" if "Skipped" in (r["out"] + r["err"]) else "no"
        return out
    finally:
        shutil.rmtree(d, ignore_errors=True)


def replay_case(case: dict) -> dict:
    toks, form, vis = case["toks"], case["form"], case["vis"]
    full = render(toks, list(range(1, len(toks) + 1)), form, vis)
    twin = render(toks, vis, form, vis)
    if case.get("many"):
        # any number of complete blocks in front changes nothing: they hide what they enclose and nothing else
        full = (PREFIX[form] + S + " hidden SPDX-License-Identifier: WTFPL " + E + "\n") * case["many"] + full
    if form == "filepoison":
        o, t = observe_file(full, toks, True), observe_file(twin, toks, True)
    elif form == "file":
        o, t = observe_file(full, toks), observe_file(twin, toks)
    elif form == "skip":
        o, t = observe_skip(full), observe_skip(twin)
    elif form == "sidecar":
        o, t = observe_file(full, toks, sidecar=True), observe_file(twin, toks, sidecar=True)
    else:
        o, t = observe(full, toks), observe(twin, toks)
    return {"tid": case["tid"], "toks": toks, "form": form, "visUsed": vis, "obs": o, "twin": t,
            "text": full if len(full) < 400 else full[:400]}


def nontrivial(case) -> bool:
    t = case["toks"]
    return "S" in t and any(x in t for x in "LCK")


def run(ctx: core.Ctx) -> int:
    q = ctx.quick
    ctx.assumptions += [
        "tokens on one line are separated by one blank; values are compared modulo runs of blanks",
        "absolute expectation (exact tag set) only for 'clean' sequences where every visible tag ends its line; "
        "all other sequences are judged by equality with the block-free twin chosen by TLC",
        "licence values are distinct per token for sequences up to 24 tokens",
    ]
    # 1. M |= R
    mc = ctx.mc("IgnoreBlock", ctx.cfg_with("MC_C12.cfg", "t", MaxLen=6 if q else 7))
    mc_viol = [{"clause": f"model:{v}", "kf": "", "mc": mc["out"][-3000:]} for v in mc["violated"]]
    # 2. cases from TLC
    states = ctx.gen("IgnoreBlock", ctx.cfg_with("Gen_C12.cfg", "t", MaxLen=5 if q else 6))
    cases = [{"tid": i + 1, "toks": s["toks"], "form": s["form"], "vis": s["vis"]} for i, s in enumerate(states)]
    ctx.exhaustive = True
    # longer sequences: TLC -simulate would give them too; here they are seeded random walks of the same
    # machine (Python only picks the tokens; vis is recomputed by TLC during validation and compared)
    rnd = random.Random(ctx.seed)
    extra = []
    n_extra = 3000 if q else 60000
    for j in range(n_extra):
        n = rnd.randint(2, 8) if j % 4 == 0 else rnd.randint(6 if q else 7, 20)
        toks = [rnd.choice("SSEELCKTNN") for _ in range(n)]
        vis, inb = [], False
        for i, t in enumerate(toks, 1):   # the scanner machine of IgnoreBlock.Scan, re-checked by TLC (harness.twin-is-not-R)
            if inb:
                inb = t != "E"
            elif t == "S":
                inb = True
            else:
                vis.append(i)
        form = rnd.choice(["bare", "hash", "slashes", "tight", "tight"]) if j % 4 else ("file" if j % 8 else "filepoison")
        if j % 16 == 5:
            form = "skip"
        elif j % 16 == 9:
            form = "sidecar"
        if form in ("file", "filepoison") and "T" not in toks:
            toks[rnd.randrange(len(toks))] = "T"
            j2 = None
            vis, inb = [], False
            for i, t in enumerate(toks, 1):
                if inb:
                    inb = t != "E"
                elif t == "S":
                    inb = True
                else:
                    vis.append(i)
        extra.append({"tid": len(cases) + j + 1, "toks": toks, "form": form, "vis": vis})
    cases += extra
    for j, c in enumerate([c for c in cases if c["form"] in ("bare", "hash", "file")][:: 400 if q else 40]):
        cases.append(dict(c, tid=len(cases) + 1, many=1200 + j))
    # 3. replay into the real code
    events = ctx.pmap(replay_case, cases)
    for ev in events[:: max(1, len(events) // 6)][:6]:
        ctx.samples.append({"toks": ev["toks"], "form": ev["form"], "text": ev["text"], "obs": ev["obs"]})
    for ev in events:
        ev.pop("text", None)
    # 4. TLC judges
    ctx.validate("Trace_C12", "Trace_C12.cfg", events)
    return ctx.finish(
        evaluations=len(events),
        distinct_nontrivial=len({(tuple(c["toks"]), c["form"]) for c in cases if nontrivial(c)}),
        rule="every token sequence over {S,E,L,C,K,T,N} up to MaxLen x 3 renderings (TLC-enumerated) plus "
             "seeded random sequences of length <= 20; non-trivial = contains a start marker and a tag",
        mc_violations=mc_viol,
        extra={"exhaustive_bound": {"mc_MaxLen": 6 if q else 7, "replay_MaxLen": 5 if q else 6}})


def replay(ctx: core.Ctx, path: str) -> int:
    payload = json.load(open(path))
    ev = payload["event"]
    case = {"tid": 1, "toks": ev["toks"], "form": ev["form"], "vis": ev["visUsed"]}
    e = replay_case(case)
    print(json.dumps(e, indent=1))
    e.pop("text", None)
    ctx.validate("Trace_C12", "Trace_C12.cfg", [e])
    return ctx.finish(evaluations=1, distinct_nontrivial=2, rule="replay of one recorded case")
