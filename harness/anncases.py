"""Case construction for the annotate checks (C07 C09 C10 C11): TLC supplies histories of abstract
bundles (specs/AnnotateMC.tla); this module crosses them with the file-type tables read off the code
(binding), initial contents and option flavours, and turns bundles into concrete requests."""
from __future__ import annotations

import json
import random

import annmodel
import core

HOLDER_POOLS = {
    "H1": ["Jane Doe", "Jürgen Müller <jm@example.com>", "ACME, Inc.", "Free Software Foundation Europe e.V. <https://fsfe.org>",
           "Carmen Bianca Bakker", "(ACME) Holdings, Inc."],
    "H2": ["Example Org", "O'Reilly & Sons", "The foo-bar authors (see AUTHORS)", "山田 太郎"],
    "H3": ["Someone Else", "Université de Nantes", "X.Org Foundation", "cURL maintainers"],
}
CON_POOLS = {"C1": ["Alice Contributor", "Zoë B."], "C2": ["Bob Helper <bob@example.org>", "Team #7"]}


def file_type_table() -> list:
    """Every entry of the extension and file-name tables (binding): [(file name, style name or None)]."""
    from reuse import comment as c
    out = []
    for ext, st in sorted(c.EXTENSION_COMMENT_STYLE_MAP.items()):
        out.append(("sample" + ext, st.SHORTHAND or st.__name__, "ext:" + ext))
    for fn, st in sorted(c.FILENAME_COMMENT_STYLE_MAP.items()):
        out.append((fn, st.SHORTHAND or st.__name__, "name:" + fn))
    return out


def concretise_bundle(b: dict, rnd: random.Random) -> dict:
    """Abstract bundle (notices over H1..H3, licences, C1..C2) -> concrete request."""
    pick = {h: rnd.choice(p) for h, p in HOLDER_POOLS.items()}
    pickc = {c: rnd.choice(p) for c, p in CON_POOLS.items()}
    cop = b["cop"]
    pfx = cop[0]["pfx"] if cop else None
    years = []
    if cop and cop[0]["y1"]:
        years = [cop[0]["y1"]] if cop[0]["y1"] == cop[0]["y2"] else [cop[0]["y2"], cop[0]["y1"]]
    return {"holders": [pick[n["holder"]] for n in cop], "pfx": pfx, "years": years, "lic": list(b["lic"]),
            "con": [pickc[c] for c in b["con"]], "verb": [], "_merge": b["merge"], "_skip": b["skip"], "_name": b["name"]}


def step_of(b: dict, rnd: random.Random, targets: list, flavour: dict | None = None, must: bool = True, pick_seed=None) -> dict:
    r2 = random.Random(pick_seed) if pick_seed is not None else rnd
    req = concretise_bundle(b, r2)
    fl = dict(flavour or {})
    if req.pop("_merge"):
        fl["merge"] = True
    if req.pop("_skip"):
        fl["skip_existing"] = True
    name = req.pop("_name")
    if not (req["holders"] or req["verb"]):
        req["years"] = [2024]           # --exclude-year without --copyright is pointless; keep the command line plain
    return {"req": req, "flavour": fl, "targets": targets, "must": {t: must for t in targets}, "bundle": name}


def label(**kw) -> str:
    return json.dumps(kw, ensure_ascii=True, sort_keys=True)
