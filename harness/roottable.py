"""Replay of RootTable.tla (which directory is the project: --root, the top of the Git work tree, or the working
directory) on the real tool.  Stage of C14."""
from __future__ import annotations

import json
import os
import shutil
import subprocess
from pathlib import Path

import core

HDR = "# SPDX-FileCopyrightText: 2020 Jane Doe\n# SPDX-License-Identifier: MIT\n"


def run_cell(case: dict) -> dict:
    c = case["c"]
    d = core.scratch_dir("rt-")
    try:
        above = d / "above"
        project, src = above / "project", above / "project" / "src"
        src.mkdir(parents=True)
        for top in (above, project, src):       # every candidate directory has a file of its own and its own LICENSES/
            (top / f"only-in-{top.name}.py").write_text(HDR + "x = 1\n")
            (top / "LICENSES").mkdir()
            (top / "LICENSES" / "MIT.txt").write_text("MIT text\n")
        genv = dict(os.environ, GIT_CONFIG_GLOBAL="/dev/null", GIT_CONFIG_SYSTEM="/dev/null", HOME=str(d))
        if c["vcs"] != "none":
            subprocess.run(["git", "init", "-q"], cwd=project if c["vcs"] == "git-here" else above, env=genv, check=True, capture_output=True)
        cwd = {"project": project, "src": src, "above": above}[c["cwd"]]
        args = [] if c["rootarg"] == "none" else ["--root", str(project) if c["rootarg"] == "abs" else os.path.relpath(project, cwd)]
        saved = {k: os.environ.get(k) for k in ("GIT_CEILING_DIRECTORIES",)}
        os.environ["GIT_CEILING_DIRECTORIES"] = str(d)        # whatever lies above the scratch directory is not part of the cell
        try:
            r = core.run_reuse([*args, "--no-multiprocessing", "lint", "--json"], cwd=cwd)
        finally:
            for k, v in saved.items():
                os.environ.pop(k, None) if v is None else os.environ.__setitem__(k, v)
        seen, lic = "?", False
        if not r["exc"] and r["exit"] in (0, 1):
            rep = json.loads(r["out"])
            paths = {f["path"] for f in rep["files"]}
            for name, mark in (("above", "only-in-above.py"), ("project", "only-in-project.py"), ("src", "only-in-src.py")):
                if mark in paths:
                    seen = name
                    break
            lic = not rep["non_compliant"]["missing_licenses"]
        return {"tid": case["tid"], "label": json.dumps(c, sort_keys=True), "c": c, "exit": r["exit"], "crash": (r["exc"] or "")[-300:],
                "seen": seen, "licensesFound": lic, "out": (r["err"] or "")[-200:]}
    finally:
        shutil.rmtree(d, ignore_errors=True)


def stage(ctx: core.Ctx, prefixes: tuple, tid0: int = 880000) -> dict:
    mc = ctx.mc("RootTable", "MC_RootTable.cfg")
    viol = [{"clause": f"model:{v}", "kf": "", "detail": mc["out"][-2000:]} for v in mc["violated"]]
    cells = {json.dumps(x["c"], sort_keys=True): x for x in
             (json.loads(core.parse_value(ln)) for ln in mc["out"].splitlines() if ln.startswith('"{'))}
    if len(cells) < 27:
        raise core.MachineryError("TLC printed too few cells of RootTable.tla:\n" + mc["out"][-800:])
    cases = [{"tid": tid0 + i, "c": x["c"]} for i, (k, x) in enumerate(sorted(cells.items()))]
    events = ctx.pmap(run_cell, cases, chunksize=4)
    before = len(ctx.rejects)
    ctx.validate("Trace_RootTable", "Trace_RootTable.cfg", events)
    mine = [r for r in ctx.rejects[before:] if str(r.get("clause", "")).startswith(tuple(prefixes))]
    ctx.rejects[before:] = mine
    ctx.notes["root_discovery_table"] = {"cells": len(cells), "answers": {k: sum(1 for e in events if e["seen"] == k) for k in ("above", "project", "src", "?")}}
    return {"events": events, "mc_violations": viol}
