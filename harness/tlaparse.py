"""Parser for TLA+ values as printed by TLC (state dumps, PrintT output).

Supported: integers, strings, TRUE/FALSE, model values / identifiers, sets {..},
sequences <<..>>, records [a |-> v, ..], functions (k :> v @@ ..), intervals a..b.
Sets become Python lists tagged as frozenset where hashable, records -> dict,
functions -> dict, sequences -> list.
"""
from __future__ import annotations


class TLAParseError(ValueError):
    pass


class _P:
    def __init__(self, s: str):
        self.s = s
        self.i = 0
        self.n = len(s)

    def ws(self):
        s, n = self.s, self.n
        while self.i < n and s[self.i] in " \t\r\n":
            self.i += 1

    def peek(self, k=1):
        return self.s[self.i:self.i + k]

    def expect(self, tok):
        self.ws()
        if not self.s.startswith(tok, self.i):
            raise TLAParseError(f"expected {tok!r} at {self.i}: {self.s[self.i:self.i+40]!r}")
        self.i += len(tok)

    def value(self):
        self.ws()
        c = self.peek()
        if c == '"':
            return self.string()
        if self.peek(2) == "<<":
            self.i += 2
            items = self.items(">>")
            return items
        if c == "{":
            self.i += 1
            items = self.items("}")
            return SetV(items)
        if c == "[":
            self.i += 1
            return self.record()
        if c == "(":
            self.i += 1
            return self.function()
        if c == "-" or c.isdigit():
            v = self.integer()
            self.ws()
            if self.peek(2) == "..":
                self.i += 2
                hi = self.value()
                return SetV(list(range(v, hi + 1)))
            return v
        return self.ident()

    def string(self):
        assert self.s[self.i] == '"'
        self.i += 1
        out = []
        s = self.s
        while True:
            c = s[self.i]
            if c == "\\":
                d = s[self.i + 1]
                out.append({"n": "\n", "t": "\t", "r": "\r", "f": "\f", '"': '"', "\\": "\\"}.get(d, d))
                self.i += 2
            elif c == '"':
                self.i += 1
                break
            else:
                out.append(c)
                self.i += 1
        return "".join(out)

    def integer(self):
        j = self.i
        if self.s[j] == "-":
            j += 1
        while j < self.n and self.s[j].isdigit():
            j += 1
        v = int(self.s[self.i:j])
        self.i = j
        return v

    def ident(self):
        j = self.i
        while j < self.n and (self.s[j].isalnum() or self.s[j] in "_!"):
            j += 1
        if j == self.i:
            raise TLAParseError(f"unexpected char at {self.i}: {self.s[self.i:self.i+40]!r}")
        w = self.s[self.i:j]
        self.i = j
        if w == "TRUE":
            return True
        if w == "FALSE":
            return False
        return ModelValue(w)

    def items(self, close):
        out = []
        self.ws()
        if self.s.startswith(close, self.i):
            self.i += len(close)
            return out
        while True:
            out.append(self.value())
            self.ws()
            if self.s.startswith(close, self.i):
                self.i += len(close)
                return out
            self.expect(",")

    def record(self):
        out = {}
        self.ws()
        if self.peek() == "]":
            self.i += 1
            return out
        while True:
            self.ws()
            j = self.s.index("|->", self.i)
            key = self.s[self.i:j].strip()
            self.i = j + 3
            out[key] = self.value()
            self.ws()
            if self.peek() == "]":
                self.i += 1
                return out
            self.expect(",")

    def function(self):
        out = FuncV()
        while True:
            k = self.value()
            self.expect(":>")
            v = self.value()
            out[_hashable(k)] = v
            self.ws()
            if self.peek() == ")":
                self.i += 1
                return out
            self.expect("@@")


class ModelValue(str):
    pass


class SetV(list):
    """A TLA+ set (order as printed by TLC, which is normalised)."""


class FuncV(dict):
    pass


def _hashable(v):
    if isinstance(v, list):
        return tuple(_hashable(x) for x in v)
    if isinstance(v, dict):
        return tuple(sorted((k, _hashable(x)) for k, x in v.items()))
    return v


def parse_value(text: str):
    p = _P(text)
    v = p.value()
    p.ws()
    if p.i != p.n:
        raise TLAParseError(f"trailing input at {p.i}: {text[p.i:p.i+40]!r}")
    return v


def parse_dump(text: str):
    """Parse a TLC `-dump` file: yields dict var -> value per state."""
    states = []
    cur = None
    buf = []
    for block in text.split("\nState ")[0:]:
        pass
    # State blocks are separated by blank lines; each starts with 'State N:'
    for chunk in text.split("\n\n"):
        chunk = chunk.strip()
        if not chunk.startswith("State "):
            continue
        body = chunk.split("\n", 1)[1] if "\n" in chunk else ""
        states.append(parse_state_body(body))
    return states


def parse_state_body(body: str):
    """Body is '/\\ v1 = val\n/\\ v2 = val' (values may span lines)."""
    st = {}
    # split at lines starting with '/\ '
    parts = []
    for line in body.split("\n"):
        if line.startswith("/\\ "):
            parts.append(line[3:])
        elif parts:
            parts[-1] += "\n" + line
        elif line.strip():
            parts.append(line)
    for part in parts:
        name, _, val = part.partition(" = ")
        st[name.strip()] = parse_value(val.strip())
    return st


def to_py(v):
    """Convert parsed TLA value to plain JSON-able python (sets -> sorted lists)."""
    if isinstance(v, SetV):
        items = [to_py(x) for x in v]
        try:
            return sorted(items, key=lambda x: (str(type(x)), x))
        except TypeError:
            return items
    if isinstance(v, FuncV):
        return {str(k): to_py(x) for k, x in v.items()}
    if isinstance(v, dict):
        return {k: to_py(x) for k, x in v.items()}
    if isinstance(v, list):
        return [to_py(x) for x in v]
    if isinstance(v, ModelValue):
        return str(v)
    return v
