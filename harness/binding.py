"""Binding constants read off the code under test and written as generated TLA+ modules.
--stubs DIR writes placeholder modules so that SANY can parse every specification at setup time."""
from __future__ import annotations

import os
import sys


def tla_str(s: str) -> str:
    out = '"'
    for ch in s:
        out += {"\\": "\\\\", '"': '\\"', "\n": "\\n", "\t": "\\t"}.get(ch, ch)
    return out + '"'


def style_table_module(styles: list | None) -> str:
    """StyleTable.tla: Styles (set of records) and TerminatorSet."""
    if styles is None:
        styles = [{"name": "python", "single": "#", "ias": " ", "ms": "", "mm": "", "me": "", "ibm": "", "iam": ""},
                  {"name": "c", "single": "", "ias": "", "ms": "/*", "mm": "*", "me": "*/", "ibm": " ", "iam": " "}]
    # R needs the comment syntaxes as they were when the specification was written: a style that the code under test no
    # longer knows (or spells differently) still exists in people's files, and its terminator must still not end up in a
    # value.  So the table is the union of the pinned styles (specs/pinned_styles.json) and the code's current ones.
    pinned_file = os.path.join(os.path.dirname(os.path.abspath(__file__)), "..", "specs", "pinned_styles.json")
    keys = ("name", "single", "ias", "ms", "mm", "me", "ibm", "iam")
    if os.path.exists(pinned_file) and len(styles) > 2:
        import json
        seen = {tuple(s_[k] for k in keys) for s_ in styles}
        for ps in json.load(open(pinned_file)):
            if tuple(ps[k] for k in keys) not in seen:
                styles = list(styles) + [dict(ps, name=ps["name"])]
    recs = []
    terms = set()
    for s in styles:
        recs.append("[" + ", ".join(f"{k} |-> {tla_str(s[k])}" for k in ("name", "single", "ias", "ms", "mm", "me", "ibm", "iam")) + "]")
        if s["me"]:
            terms.add(s["me"])
    # the special endings the specification of the reader names, expanded to their concrete spellings
    terms |= {'">', '" >', '"/>', '" />', "'>", "' >", "'/>", "' />", "]::", "] ::"}
    return ("---- MODULE StyleTable ----\n(* GENERATED from the comment-style table of the code under test (binding). *)\n"
            "Styles == {" + ",\n           ".join(recs) + "}\n"
            "TerminatorSet == {" + ", ".join(tla_str(t) for t in sorted(terms)) + "}\n====\n")


if __name__ == "__main__":
    if len(sys.argv) == 3 and sys.argv[1] == "--stubs":
        with open(os.path.join(sys.argv[2], "StyleTable.tla"), "w") as fh:
            fh.write(style_table_module(None))
