"""pytest plugin: records every `CliRunner().invoke(main, args)` of the repository's own test-suite as one
trace event (command, exit status, unhandled exception, what changed on disk), so that the executions the
maintainers' tests already drive are judged by the TLA+ requirement operators (Footprint.tla for C15, the
exit-status discipline of C16) and not only by the tests' own assertions.

Loaded with `-p testtrace_plugin` (PYTHONPATH=/verif/harness); does nothing unless REUSE_VERIF_TESTTRACE
names an output file.  Lives in /verif, changes nothing in /repo.

The command line is abstracted with tables read off the click command objects themselves (which options
take a value, which arguments are positional) - a binding, not a copy."""
from __future__ import annotations

import hashlib
import json
import os
import shlex
from pathlib import Path

OUT = os.environ.get("REUSE_VERIF_TESTTRACE")
BASE = os.environ.get("REUSE_VERIF_TESTTRACE_BASE")      # pytest --basetemp: everything a test may touch lies below


def _snap(top: Path) -> dict:
    out = {}
    for dirpath, dirs, files in os.walk(top, followlinks=False):
        if ".git" in dirs and False:
            pass
        for n in list(dirs) + files:
            x = Path(dirpath) / n
            rel = x.relative_to(top).as_posix()
            if "/.git/" in "/" + rel + "/" or "/.hg/" in "/" + rel + "/":
                continue
            try:
                st = x.lstat()
                if x.is_symlink():
                    out[rel] = ("link", os.readlink(x))
                elif x.is_dir():
                    out[rel] = ("dir",)
                else:
                    try:
                        h = hashlib.sha1(x.read_bytes()).hexdigest()
                    except OSError:
                        h = "unreadable"
                    out[rel] = ("file", st.st_size, st.st_mode, st.st_mtime_ns, h)
            except OSError:
                out[rel] = ("gone",)
    return out


def _diff(a: dict, b: dict):
    changed = sorted(p for p in a if p in b and a[p] != b[p] and a[p][0] != "dir")
    created = sorted(p for p in b if p not in a and b[p][0] != "dir")
    removed = sorted(p for p in a if p not in b and a[p][0] != "dir")
    return changed, created, removed


def parse_command(cli, args: list) -> dict:
    """[global options] subcommand [options] [positionals] -> {sub, opts{name: [values]|True}, pos[]} using click's tables."""
    def table(cmd):
        t = {}
        for p in cmd.params:
            for o in getattr(p, "opts", []) + getattr(p, "secondary_opts", []):
                if o.startswith("-"):
                    t[o] = (p.name, bool(getattr(p, "is_flag", False) or getattr(p, "count", False)))
        return t
    g = table(cli)
    res = {"sub": None, "gopts": {}, "opts": {}, "pos": [], "odd": False}
    i = 0
    cur, bucket = g, res["gopts"]
    while i < len(args):
        a = args[i]
        if a == "--" and res["sub"]:
            res["pos"] += args[i + 1:]
            break
        if a.startswith("-") and a != "-":
            key, val = (a.split("=", 1) + [None])[:2] if a.startswith("--") else (a, None)
            if not a.startswith("--") and len(a) > 2 and a[:2] in cur:       # -ofile / combined short flags
                if cur[a[:2]][1]:
                    for ch in a[1:]:
                        if "-" + ch in cur:
                            bucket[cur["-" + ch][0]] = True
                    i += 1
                    continue
                key, val = a[:2], a[2:]
            if key in ("--help", "-h"):
                bucket["help"] = True
                i += 1
                continue
            if key not in cur:
                res["odd"] = True
                i += 1
                continue
            name, flag = cur[key]
            if flag:
                bucket[name] = True
            else:
                if val is None:
                    i += 1
                    val = args[i] if i < len(args) else None
                bucket.setdefault(name, []).append(val)
            i += 1
            continue
        if res["sub"] is None:
            res["sub"] = a
            sub = cli.commands.get(a) if hasattr(cli, "commands") else None
            if sub is None:
                res["odd"] = True
                break
            cur, bucket = table(sub), res["opts"]
        else:
            res["pos"].append(a)
        i += 1
    return res


def _rel(p: str, cwd: str, root: str) -> str:
    ab = os.path.normpath(os.path.join(cwd, p))
    r = os.path.relpath(ab, root)
    return "" if r == "." else r.replace(os.sep, "/")


def abstract_command(pc: dict, cwd: str, root: str) -> dict:
    """The parsed command line -> the command record of Footprint.tla / Reuse.tla."""
    sub, o, pos = pc["sub"], pc["opts"], pc["pos"]
    cmd = {"kind": "help", "targets": [], "out": ""}
    if pc["gopts"].get("help") or o.get("help") or sub is None:
        cmd["kind"] = "version" if pc["gopts"].get("version") else "help"
    elif sub == "lint":
        cmd["kind"] = "lint"
    elif sub in ("lint-file", "supported-licenses", "convert-dep5"):
        cmd["kind"] = sub
    elif sub == "spdx":
        if o.get("output"):
            cmd.update(kind="spdx-o", out=_rel(o["output"][-1], cwd, root))
        else:
            cmd["kind"] = "spdx"
    elif sub == "annotate":
        cmd["kind"] = "annotate-r" if o.get("recursive") else "annotate"
        cmd["targets"] = [_rel(p, cwd, root) for p in pos]
    elif sub == "download":
        cmd["kind"] = "download"
        cmd["targets"] = [p[:-1] if p.endswith("+") else p for p in pos]
        if o.get("output"):
            cmd["out"] = _rel(o["output"][-1], cwd, root)
        if o.get("all_"):
            cmd["targets"] = ["*"]
    else:
        cmd["kind"] = "other:" + str(sub)
    return cmd


def _find_root(pc: dict, cwd: str, top: str) -> str:
    r = pc["gopts"].get("root")
    if r and r[-1]:
        return os.path.normpath(os.path.join(cwd, r[-1]))
    d = cwd
    while True:
        if any(os.path.isdir(os.path.join(d, v)) for v in (".git", ".hg", ".jj", ".pijul")):
            return d
        if os.path.normpath(d) == os.path.normpath(top) or os.path.dirname(d) == d:
            return cwd
        d = os.path.dirname(d)


if OUT:
    import click.testing

    _orig = click.testing.CliRunner.invoke
    _count = [0]

    def _invoke(self, cli, args=None, **kw):
        if getattr(cli, "name", None) not in ("main", "reuse") or not hasattr(cli, "commands"):
            return _orig(self, cli, args, **kw)
        arglist = shlex.split(args) if isinstance(args, str) else [str(a) for a in (args or [])]
        try:
            cwd = os.getcwd()
        except OSError:
            return _orig(self, cli, args, **kw)
        pc = parse_command(cli, arglist)
        base = os.path.realpath(BASE) if BASE else None

        def case_dir(p):            # the directory directly below pytest's basetemp that holds p
            rp = os.path.realpath(p)
            if base and rp.startswith(base + os.sep):
                return os.path.join(base, os.path.relpath(rp, base).split(os.sep)[0])
            return None
        cwd = os.path.realpath(cwd)
        top = case_dir(cwd)
        root = _find_root(pc, cwd, top or cwd)
        if case_dir(root):
            top = case_dir(root)
            root = os.path.realpath(root)
        if top is None or not os.path.realpath(root).startswith(top):
            return _orig(self, cli, args, **kw)      # runs outside the test's own directory are not observed
        before = _snap(Path(top))
        res = _orig(self, cli, args, **kw)
        after = _snap(Path(top))
        ch, cr, rm = _diff(before, after)
        rootrel = os.path.relpath(root, top)
        rootrel = "" if rootrel == "." else rootrel.replace(os.sep, "/") + "/"

        def split(paths):
            ins = [p[len(rootrel):] for p in paths if p.startswith(rootrel)]
            outs = [p for p in paths if not p.startswith(rootrel)]
            return ins, outs
        (chi, cho), (cri, cro), (rmi, rmo) = split(ch), split(cr), split(rm)
        files = sorted(p[len(rootrel):] for p, v in before.items() if v[0] == "file" and p.startswith(rootrel))
        links = sorted(p[len(rootrel):] for p, v in before.items() if v[0] == "link" and p.startswith(rootrel))
        exc = res.exception
        crash = ""
        if exc is not None and not isinstance(exc, SystemExit):
            crash = f"{type(exc).__name__}: {exc}"[:300]
        _count[0] += 1
        ev = {"tid": _count[0], "k": 1, "test": os.environ.get("PYTEST_CURRENT_TEST", "").split(" ")[0], "args": arglist,
              "parsed": {"sub": pc["sub"], "odd": pc["odd"]}, "cmd": abstract_command(pc, cwd, root),
              "cwd": os.path.relpath(cwd, top), "root": rootrel, "exit": res.exit_code, "crash": crash,
              "changed": chi, "created": cri, "removed": rmi, "sentinel": sorted(cho + cro + rmo),
              "files": files, "symlinks": links, "out": (res.output or "")[-300:]}
        with open(OUT, "a") as fh:
            fh.write(json.dumps(ev, ensure_ascii=True) + "\n")
        return res

    click.testing.CliRunner.invoke = _invoke


# ------------------------------------------------------------------------------------------------------------------
# API level: every AnnotationsItem.matches(path) call the repository's tests make (C05: judged by Glob.tla's two readings)
API_OUT = os.environ.get("REUSE_VERIF_APITRACE")
if API_OUT:
    try:
        from reuse.global_licensing import AnnotationsItem as _AI

        _orig_matches = _AI.matches

        def _matches(self, path):
            res = _orig_matches(self, path)
            try:
                globs = sorted(str(g) for g in self.paths)
                if all(s.isascii() for s in globs + [str(path)]):
                    with open(API_OUT, "a") as fh:
                        fh.write(json.dumps({"globs": globs, "path": str(path), "result": bool(res),
                                             "test": os.environ.get("PYTEST_CURRENT_TEST", "").split(" ")[0]}) + "\n")
            except Exception:  # noqa: BLE001 - recording must never change the outcome of a test
                pass
            return res

        _AI.matches = _matches
    except Exception:  # noqa: BLE001
        pass
