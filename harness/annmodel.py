"""Concretisation and projection for the annotate family (C07 C08 C09 C10 C11 C20).

Binding constants are read off the comment-style table of the code under test at every run;
abstract line kinds (specs/Header.tla) are rendered in a concrete style; files are compared
line by line (exact bytes) before / after `reuse annotate`.  No oracle here."""
from __future__ import annotations

import json
import os
from pathlib import Path

import core

BOM = "\ufeff"


def style_table() -> list:
    """Facts about every named comment style (binding constants)."""
    from reuse.comment import NAME_STYLE_MAP
    out = []
    for name, s in sorted(NAME_STYLE_MAP.items()):
        single = s.SINGLE_LINE or ""
        ms, mm, me = tuple(s.MULTI_LINE)
        rx = s.SINGLE_LINE_REGEXP.pattern if s.SINGLE_LINE_REGEXP else ""
        shebs = list(s.SHEBANGS or [])

        def is_comment(line, single=single, rx=rx):
            import re
            return bool(single) and (line.startswith(single) or (bool(rx) and re.match(rx, line) is not None))
        out.append({
            "name": name, "single": single, "ias": s.INDENT_AFTER_SINGLE, "rx": rx,
            "ms": ms, "mm": mm, "me": me, "ibm": s.INDENT_BEFORE_MIDDLE, "iam": s.INDENT_AFTER_MIDDLE,
            "ibe": s.INDENT_BEFORE_END, "shebangs": shebs,
            "hasSingle": bool(single), "hasMulti": bool(ms and me),
            "shebIsComment": [is_comment(x + "x") for x in shebs],
            "prefixClash": bool(single and ms and ms.startswith(single)),
        })
    return out


def style_class(st: dict, sheb_idx: int = 0) -> str:
    """Abstract class of specs/HeaderGen.tla the concrete style belongs to."""
    sic = bool(st["shebangs"]) and st["shebIsComment"][min(sheb_idx, len(st["shebangs"]) - 1)]
    if st["prefixClash"]:
        return "J"
    if st["hasSingle"] and st["hasMulti"]:
        return "B1" if st["shebangs"] else "B2"
    if st["hasSingle"]:
        if not st["shebangs"]:
            return "S2"
        return "S1" if sic else "S3"
    return "M2" if st["shebangs"] else "M1"


def foreign_marker(st: dict) -> str:
    for cand in ("# ", "// ", ";; ", "-- "):
        m = cand.strip()
        if st["single"] and (m.startswith(st["single"]) or st["single"].startswith(m)):
            continue
        if st["ms"] and (m.startswith(st["ms"][:1]) and st["ms"].startswith(m[:len(st["ms"])])):
            continue
        if st["rx"] and m.startswith(";"):
            continue
        if any(sh.startswith(m) or m.startswith(sh[:1]) for sh in st["shebangs"]):
            continue
        return cand
    return "|| "


def render_line(st: dict, k: str, n: int, sheb_idx: int = 0) -> str:
    code = f"value{n} := {n};"
    if k == "code":
        return code
    if k == "icode":
        return "    " + code
    if k == "blank":
        return ""
    if k == "wsb":
        return "\t \t" + " " * n            # whitespace-only, unlike any blank line a header contains
    if k == "sc":
        return st["single"] + st["ias"] + f"note {n}"
    if k == "sct":
        return st["single"] + st["ias"] + f"SPDX-FileCopyrightText: {1970 + n} Old Holder{n}"
    if k == "isc":
        return "  " + st["single"] + st["ias"] + f"indented note {n}"
    mid = (st["ibm"] + st["mm"] + st["iam"]) if st["mm"] else ""
    if k == "mo":
        return st["ms"] + f" block {n}"
    if k == "mm":
        return mid + f"note {n}"
    if k == "mmt":
        return mid + f"SPDX-FileCopyrightText: {1970 + n} Old Holder{n}"
    if k == "mc":
        return st["ibe"] + f"end {n} " + st["me"]
    if k == "mcx":
        return st["ibe"] + f"end {n} " + st["me"] + " " + code
    if k == "mone":
        return st["ms"] + f" note {n} " + st["me"]
    if k == "monet":
        return st["ms"] + f" SPDX-FileCopyrightText: {1970 + n} Old Holder{n} " + st["me"]
    fm = foreign_marker(st)
    if k == "fc":
        return fm + f"foreign {n}"
    if k == "fct":
        return fm + f"SPDX-FileCopyrightText: {1980 + n} Foreign Holder{n}"
    if k in ("sheb", "dup"):
        n = 1                     # dup: exactly the bytes of line 1
        sh = st["shebangs"][min(sheb_idx, len(st["shebangs"]) - 1)]
        return sh + f"/usr/bin/env run{n}"
    raise ValueError(k)


def render_body(st: dict, body: list, eol: str, final_nl: bool, bom: bool, sheb_idx: int = 0, tws_line: int = 0,
                quote: bool = False, exotic: bool = False, longfirst: int = 0) -> tuple:
    """-> (bytes, [line strings]).  quote: a code line above the first one-line tagged comment carries that comment's
    exact bytes inside a string literal (still a code line: to be kept byte for byte)."""
    lines = []
    for i, ln in enumerate(body, 1):
        s = render_line(st, ln["k"], ln["id"] if ln["id"] else i, sheb_idx)
        if tws_line == i and ln["k"] in ("code", "sc", "fc"):
            s += "   "
        lines.append(s)
    if longfirst and body and body[0]["k"] in ("code", "icode", "fc"):
        # a first line so long that the first line break of the file lies at or beyond character 4096
        lines[0] = lines[0] + " " + "y" * max(0, longfirst - len(lines[0]) - 1)
    if exotic:
        # code lines carry characters that str.splitlines() treats as line boundaries although they end no line of the file
        for i, ln in enumerate(body):
            if ln["k"] in ("code", "icode"):
                lines[i] += ' "page\x0cbreak" "ls\u2028ps\u2029" "vt\x0bfs\x1c" "nel\x85"'
    if quote:
        j = next((i for i, ln in enumerate(body) if ln["k"] in ("sct", "monet")), None)
        i = next((i for i, ln in enumerate(body[:j or 0]) if ln["k"] in ("code", "icode")), None)
        if j is not None and i is not None:
            n = body[i]["id"] or i + 1
            lines[i] = ("    " if body[i]["k"] == "icode" else "") + f'value{n} := "' + lines[j] + '";'
    if body and body[-1]["k"] == "blank":
        final_nl = True          # otherwise the last (empty) line would not exist
    text = eol.join(lines) + (eol if final_nl and lines else "")
    if bom:
        text = BOM + text
    return text.encode("utf-8"), lines


def split_lines(data: bytes) -> dict:
    text = data.decode("utf-8", errors="surrogateescape")
    bom = text.startswith(BOM)
    if bom:
        text = text[1:]          # the mark is a fact of its own (bom), not part of the first line
    if "\r\n" in text:
        eol = "\r\n"
    elif "\r" in text:
        eol = "\r"
    elif "\n" in text:
        eol = "\n"
    else:
        eol = ""
    mixed = False
    if eol:
        rest = text.replace(eol, "")
        mixed = "\r" in rest or "\n" in rest
    lines = text.split(eol) if eol else [text]
    final_nl = bool(eol) and text.endswith(eol)
    if final_nl:
        lines = lines[:-1]
    if not text:
        lines = []
    return {"bom": bom, "eol": {"\n": "LF", "\r\n": "CRLF", "\r": "CR", "": "none"}[eol], "mixed": mixed,
            "finalNL": final_nl, "lines": lines}


def project_post(pre_lines: list, pre_ids: list, post: dict) -> list:
    """Match every post line to a pre line by exact bytes (then modulo trailing blanks); -1 = new line."""
    table = {}
    multi = {}
    for s, i in zip(pre_lines, pre_ids):
        if i != 0:
            table.setdefault(s, i)
            multi.setdefault(s, []).append(i)
    stripped = {}
    for s, i in zip(pre_lines, pre_ids):
        if i != 0 and s.rstrip(" \t") != s:
            stripped.setdefault(s.rstrip(" \t"), i)
    out = []
    for s in post["lines"]:
        if s == "":
            out.append({"id": 0, "tws": False})
        elif s in table:
            ids = multi[s]
            out.append({"id": ids.pop(0) if len(ids) > 1 else ids[0], "tws": False})   # duplicates: in order of occurrence
        elif s in stripped:
            out.append({"id": stripped[s], "tws": True})
        else:
            out.append({"id": -1, "tws": False})
    return out


C_LOCALE = {"LC_ALL": "C", "LANG": "C", "PYTHONUTF8": "0", "PYTHONCOERCECLOCALE": "0"}


def annotate(root: Path, files: list, opts: list, cwd=None, locale_c: bool = False, hashseed=None) -> dict:
    args = ["--root", str(root), "annotate", *opts, *[str(f) for f in files]]
    if hashseed is not None:      # the order in which the files of one invocation are visited follows the string hash seed
        return core.run_reuse_subprocess(args, cwd=cwd, env={"PYTHONHASHSEED": str(hashseed)})
    if locale_c:       # a fresh interpreter whose locale is not UTF-8 (what it writes is UTF-8 all the same)
        return core.run_reuse_subprocess(args, cwd=cwd, env=C_LOCALE)
    return core.run_reuse(args, cwd=cwd)
