"""Replay of the decision table of LintFileArgs.tla (what `reuse lint-file` makes of one argument) on the real tool: each
cell is built next to a second argument that is a covered file with or without information; Trace_LintFileArgs compares
exit status and the set of reported paths with the table.  Stage of C13."""
from __future__ import annotations

import json
import os
import shutil
from pathlib import Path

import core

GOOD = "# SPDX-FileCopyrightText: 2020 Jane Doe\n# SPDX-License-Identifier: MIT\n"
ARG = {"covered-bad": "src/bad.py", "covered-good": "src/good.py", "excluded-name": "src/LICENSE", "in-licenses": "LICENSES/MIT.txt",
       "dot-license": "img/logo.png.license", "empty": "src/empty.py", "in-ignored-dir": ".reuse/notes.txt",
       "deep-in-ignored-dir": ".reuse/templates/header.jinja2", "directory": "pkg", "link-to-covered-bad": "src/link.py",
       "link-out": "src/out.py", "link-dangling": "src/dangling.py", "missing": "src/nothing-here.py", "outside": "../outside/far.py"}


def run_cell(case: dict) -> dict:
    c = case["c"]
    d = core.scratch_dir("lfa-")
    try:
        root = d / "root"
        for sub in ("src", "LICENSES", "img", ".reuse/templates", "pkg/inner", "../outside"):
            (root / sub).resolve().mkdir(parents=True, exist_ok=True)
        (root / "LICENSES" / "MIT.txt").write_text("MIT text\n")
        (root / "src" / "bad.py").write_text("no = 'information'\n")
        (root / "src" / "good.py").write_text(GOOD + "x = 1\n")
        (root / "src" / "LICENSE").write_text("a licence file by name\n")
        (root / "img" / "logo.png").write_bytes(b"\x89PNG\r\n\x1a\n\x00\x00" + bytes(range(256)))
        (root / "img" / "logo.png.license").write_text("SPDX-FileCopyrightText: 2020 Jane Doe\nSPDX-License-Identifier: MIT\n")
        (root / "src" / "empty.py").write_text("")
        (root / ".reuse" / "notes.txt").write_text("notes\n")
        (root / ".reuse" / "templates" / "header.jinja2").write_text("{{ x }}\n")
        (root / "pkg" / "inner" / "below.py").write_text("below = 1\n")
        (d / "outside" / "far.py").write_text("far = 1\n")
        os.symlink("bad.py", root / "src" / "link.py")
        os.symlink(str(d / "outside" / "far.py"), root / "src" / "out.py")
        os.symlink("gone.py", root / "src" / "dangling.py")
        other = "src/other_bad.py" if case["otherBad"] else "src/other_good.py"
        (root / other).write_text(("" if case["otherBad"] else GOOD) + "other = 1\n")
        rel = ARG[c["what"]]
        if c["how"] == "relative":
            cwd, args, rootarg = root, [rel, other], "."
        elif c["how"] == "absolute":
            cwd, args, rootarg = d, [os.path.join(str(root), rel), str(root / other)], str(root)
        else:
            cwd, rootarg = root / "img", ".."
            args = [os.path.join("..", rel), os.path.join("..", other)]
        r = core.run_reuse(["--root", rootarg, "--no-multiprocessing", "lint-file", *args], cwd=cwd)
        reported = set()
        for ln in (r["out"] or "").splitlines():
            if ": " in ln:
                pth = ln.rsplit(": ", 1)[0]
                ab = os.path.normpath(os.path.join(str(cwd), pth))
                try:
                    reported.add(os.path.relpath(os.path.realpath(ab) if False else ab, str(root)).replace(os.sep, "/"))
                except ValueError:
                    reported.add(pth)
        return {"tid": case["tid"], "label": json.dumps({"arg": c, "otherBad": case["otherBad"]}, sort_keys=True), "c": c,
                "otherBad": case["otherBad"], "exit": r["exit"], "crash": (r["exc"] or "")[-300:],
                "named": os.path.normpath(rel) in reported, "below": "pkg/inner/below.py" in reported,
                "target": (c["what"] == "link-to-covered-bad" and "src/bad.py" in reported) or (c["what"] == "link-out" and any("far.py" in x for x in reported)),
                "other": other in reported, "out": (r["out"] + r["err"])[-200:]}
    finally:
        shutil.rmtree(d, ignore_errors=True)


def stage(ctx: core.Ctx, prefixes: tuple, tid0: int = 800000) -> dict:
    mc = ctx.mc("LintFileArgs", "MC_LintFileArgs.cfg")
    viol = [{"clause": f"model:{v}", "kf": "", "detail": mc["out"][-2000:]} for v in mc["violated"]]
    cells = {json.dumps(x["c"], sort_keys=True): x for x in
             (json.loads(core.parse_value(ln)) for ln in mc["out"].splitlines() if ln.startswith('"{'))}
    if len(cells) < 40:
        raise core.MachineryError("TLC printed too few cells of LintFileArgs.tla:\n" + mc["out"][-800:])
    cases = []
    for k, x in sorted(cells.items()):
        for ob in (False, True):
            cases.append({"tid": tid0 + len(cases), "c": x["c"], "otherBad": ob})
    events = ctx.pmap(run_cell, cases, chunksize=8)
    before = len(ctx.rejects)
    ctx.validate("Trace_LintFileArgs", "Trace_LintFileArgs.cfg", events)
    mine = [r for r in ctx.rejects[before:] if str(r.get("clause", "")).startswith(tuple(prefixes))]
    ctx.rejects[before:] = mine
    ctx.notes["lint_file_argument_table"] = {"cells": len(cells), "runs": len(events),
                                             "exits": {str(k): sum(1 for e in events if e["exit"] == k) for k in (0, 1, 2)}}
    return {"events": events, "mc_violations": viol}
