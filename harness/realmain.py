"""`python realmain.py <reuse arguments>` = `python -m reuse <arguments>` in a fresh interpreter, with one addition: an
exception that nobody handles is tagged on stderr (sys.excepthook runs for those only), so that a traceback which the tool
itself logged while handling an error is not mistaken for a crash."""
import runpy
import sys

_default = sys.excepthook


def _hook(tp, val, tb):
    sys.stderr.write("REUSE-VERIF-UNHANDLED-EXCEPTION\n")
    _default(tp, val, tb)


sys.excepthook = _hook
sys.argv = ["reuse", *sys.argv[1:]]
runpy.run_module("reuse", run_name="__main__", alter_sys=True)
