"""Replay of Workflow.tla behaviours on the real tool (spec -> code), with the abstract state compared after
every command (Trace_Workflow): TLC (-simulate, seeded) produces command sequences from every initial state;
each is run on a real project; before and after every command the abstract state is observed through
`reuse lint --json` and the LICENSES/ directory.  Used as an extra stage by C01, C07, C19 (each keeps the
rejections whose clause carries its own prefix)."""
from __future__ import annotations

import json
import os
import random
import shutil
import urllib.request
from pathlib import Path

import core

HEAD = {".py": ("# ", ""), ".c": ("// ", ""), ".md": ("<!-- ", " -->")}


def _initial(path: str, st: dict, sibling: bool = False) -> tuple:
    """(content of the file, content of FILE.license or None): the declarations live in the header or in the sibling."""
    pre, post = ("", "") if sibling else HEAD[Path(path).suffix]
    lines = []
    if st["cop"]:
        lines.append(f"{pre}SPDX-FileCopyrightText: 2019 Original Author{post}")
    for x in st["lic"]:
        lines.append(f"{pre}SPDX-License-Identifier: {x}{post}")
    body = {".py": "x = 1\n", ".c": "int x;\n", ".md": "# title\n"}[Path(path).suffix]
    if sibling:
        return body, "\n".join(lines) + "\n"
    return ("\n".join(lines) + "\n\n" if lines else "") + body, None


def observe(root: Path) -> dict:
    r = core.run_reuse(["--root", str(root), "--no-multiprocessing", "lint", "--json"])
    if r["exc"] or r["exit"] not in (0, 1):
        return {"info": {}, "own": {}, "sib": [], "present": [], "glob": "none", "missing": [], "unused": [], "nocop": [], "nolic": [], "failed": (r["exc"] or r["err"])[-200:]}
    rep = json.loads(r["out"])
    info, own = {}, {}
    mine = ("file-header", "dot-license")      # what the file declares itself, as opposed to dep5 / REUSE.toml
    for f in rep["files"]:
        info[f["path"]] = {"cop": bool(f["copyrights"]), "lic": sorted({e["value"] for e in f["spdx_expressions"]})}
        own[f["path"]] = {"cop": any(c["source_type"] in mine for c in f["copyrights"]),
                          "lic": sorted({e["value"] for e in f["spdx_expressions"] if e["source_type"] in mine})}
    nc = rep["non_compliant"]
    lic_dir = root / "LICENSES"
    present = sorted(p.name[:-4] for p in lic_dir.glob("*.txt")) if lic_dir.is_dir() else []
    def rel(x):
        try:
            return Path(x).resolve().relative_to(root.resolve()).as_posix() if Path(x).is_absolute() else Path(x).as_posix()
        except ValueError:
            return x
    has_dep5, has_toml = (root / ".reuse" / "dep5").is_file(), (root / "REUSE.toml").is_file()
    glob = "both" if has_dep5 and has_toml else "dep5" if has_dep5 else "toml" if has_toml else "none"
    sib = sorted(f for f in info if (root / (f + ".license")).is_file())
    return {"info": info, "own": own, "sib": sib, "present": present, "glob": glob, "missing": sorted(nc["missing_licenses"]), "unused": sorted(nc["unused_licenses"]),
            "nocop": sorted(rel(x) for x in nc["missing_copyright_info"]), "nolic": sorted(rel(x) for x in nc["missing_licensing_info"]),
            "other": sorted(k for k in ("bad_licenses", "deprecated_licenses", "licenses_without_extension", "read_errors") if nc[k])}


def command_line(root: Path, c: dict, rnd=None) -> list:
    base = ["--root", str(root)]
    k = c["kind"]
    if rnd is not None:         # sets in the model, sequences on the command line: the order is the harness's to choose
        c = dict(c, lic=rnd.sample(c["lic"], len(c["lic"])), files=rnd.sample(c["files"], len(c["files"])))
    if k == "lint":
        return [*base, "--no-multiprocessing", "lint"]
    if k == "lint-file":
        return [*base, "--no-multiprocessing", "lint-file", *[str(root / f) for f in c["files"]]]
    if k == "spdx":
        return [*base, "--no-multiprocessing", "spdx"]
    if k == "download":
        return [*base, "download", *c["lic"]]
    if k == "download-all":
        return [*base, "--no-multiprocessing", "download", "--all"]
    if k == "convert-dep5":
        return [*base, "convert-dep5"]
    if k == "annotate":
        o = []
        if c["cop"]:
            o += ["--copyright", "New Holder", "--year", "2024"]
        for x in c["lic"]:
            o += ["--license", x]
        if c.get("dot"):
            o.append("--force-dot-license")
        if c.get("skip"):
            o.append("--skip-existing")
        return [*base, "annotate", *o, *[str(root / f) for f in c["files"]]]
    raise ValueError(k)


def run_case(case: dict) -> list:
    from props import c19
    d = core.scratch_dir("wf-")
    real = urllib.request.urlopen
    events = []
    try:
        root = d / "root"
        for f, st in case["info"].items():
            p = root / f
            p.parent.mkdir(parents=True, exist_ok=True)
            text, dot = _initial(f, st, f in case.get("sib", []))
            p.write_text(text)
            if dot is not None:
                Path(str(p) + ".license").write_text(dot)
        if case.get("glob") == "dep5":
            (root / ".reuse").mkdir(parents=True, exist_ok=True)
            (root / ".reuse" / "dep5").write_text(
                "Format: https://www.debian.org/doc/packaging-manuals/copyright-format/1.0/\nUpstream-Name: wf\n\n"
                "Files: docs/*\nCopyright: 2005 Dep Five\nLicense: 0BSD\n")
        elif case.get("glob") == "toml":
            root.mkdir(parents=True, exist_ok=True)
            (root / "REUSE.toml").write_text(
                'version = 1\n\n[[annotations]]\npath = "docs/**"\nprecedence = "aggregate"\n'
                'SPDX-FileCopyrightText = "2005 Dep Five"\nSPDX-License-Identifier = "0BSD"\n')
        if case["present"]:
            (root / "LICENSES").mkdir(parents=True, exist_ok=True)
        for x in case["present"]:
            (root / "LICENSES" / f"{x}.txt").write_text(f"text of {x}\n")

        def fake(url, *a, **k):
            u = url if isinstance(url, str) else url.full_url
            return c19._Resp(c19.body_of(u.rsplit("/", 1)[-1][:-4]).encode())
        urllib.request.urlopen = fake
        pre = observe(root)
        rnd = random.Random(case["tid"])
        for k, h in enumerate(case["hist"], 1):
            c = h["cmd"]
            r = core.run_reuse(command_line(root, c, rnd))
            post = observe(root)
            doc = {}
            if c["kind"] == "spdx" and r["exit"] == 0 and not r["exc"]:
                cur = None
                for ln in r["out"].splitlines():
                    if ln.startswith("FileName: "):
                        cur = ln[len("FileName: "):]
                        cur = cur[2:] if cur.startswith("./") else cur
                        doc[cur] = {"cop": False, "lic": []}
                    elif cur and ln.startswith("LicenseInfoInFile: ") and ln.split(": ", 1)[1] not in ("NONE", "NOASSERTION"):
                        doc[cur]["lic"] = sorted(set(doc[cur]["lic"]) | {ln.split(": ", 1)[1]})
                    elif cur and ln.startswith("FileCopyrightText: "):
                        doc[cur]["cop"] = ln.split(": ", 1)[1].strip() not in ("NONE", "NOASSERTION", "<text></text>")
                    elif ln.startswith(("LicenseID:", "Relationship:")) and not ln.startswith("Relationship: SPDXRef-DOCUMENT DESCRIBES"):
                        cur = None if ln.startswith("LicenseID:") else cur
            crash = r["exc"] or pre.get("failed") or post.get("failed") or ""
            events.append({"tid": case["tid"], "k": k, "label": case["label"], "cmd": c, "pre": pre, "post": post, "exit": r["exit"],
                           "crash": crash[-300:], "modelExit": h["exit"], "doc": doc, "hasDoc": c["kind"] == "spdx" and r["exit"] == 0, "out": (r["out"] + r["err"])[-200:]})
            pre = post
        return events
    finally:
        urllib.request.urlopen = real
        shutil.rmtree(d, ignore_errors=True)


def behaviours(ctx: core.Ctx, n: int, depth: int = 4) -> list:
    r = ctx.tlc("Workflow", ctx.cfg_with("Gen_Workflow.cfg", "sim", MaxCmds=depth), workers=1, simulate=f"num={n}",
                extra=["-depth", str(depth + 1), "-seed", str(ctx.seed + 77)], check=False)
    out = []
    for ln in r["out"].splitlines():
        if ln.startswith('"{'):
            out.append(json.loads(core.parse_value(ln)))
    uniq = {json.dumps(b, sort_keys=True): b for b in out}
    ctx.mc_runs.append({"module": "Workflow", "cfg": "Gen_Workflow (simulate)", "role": "behaviours for replay",
                        "behaviours": len(uniq), "wall_s": round(r["wall"], 2)})
    if not uniq:
        raise core.MachineryError("TLC produced no Workflow behaviours:\n" + r["out"][-1500:])
    return [uniq[k] for k in sorted(uniq)][:: max(1, len(uniq) // n)][:n]       # (TLC may print more than num behaviours)


def stage(ctx: core.Ctx, prefixes: tuple, tid0: int = 500000) -> dict:
    """Model-check Workflow.tla, replay seeded behaviours, validate; keep only rejections with this check's prefixes."""
    q = ctx.quick
    mc = ctx.mc("Workflow", "MC_Workflow.cfg")
    viol = [{"clause": f"model:{v}", "kf": "", "detail": mc["out"][-2000:]} for v in mc["violated"]]
    if not q:
        for cfg in (("MC_Workflow_big.cfg",) if "C01." in prefixes else ()):      # (the largest instance once, in C01's check)
            mcb = ctx.mc("Workflow", cfg)
            viol += [{"clause": f"model:{v}", "kf": "", "detail": mcb["out"][-2000:]} for v in mcb["violated"]]
        mc2 = ctx.mc("Workflow", "MC_Workflow_deep.cfg")
        viol += [{"clause": f"model:{v}", "kf": "", "detail": mc2["out"][-2000:]} for v in mc2["violated"]]
    bs = behaviours(ctx, 150 if q else 2000, 5)
    def opts(c):
        return [k for k in ("dot", "skip") if c.get(k)]
    cases = [{"tid": tid0 + i, "info": b["info"], "present": b["present"], "glob": b["glob"], "sib": b.get("sib", []), "hist": b["hist"],
              "label": json.dumps({"workflow": [[h["cmd"]["kind"], h["cmd"]["files"], h["cmd"]["cop"], h["cmd"]["lic"], *opts(h["cmd"])] for h in b["hist"]],
                                   "start": [b["info"], b["present"], b["glob"], b.get("sib", [])]})} for i, b in enumerate(bs)]
    evl = ctx.pmap(run_case, cases, chunksize=4, daemon=False)
    events = [e for es in evl for e in es]
    before = len(ctx.rejects)
    ctx.validate("Trace_Workflow", "Trace_Workflow.cfg", events, group_key="tid")
    mine, foreign = [], 0
    for r in ctx.rejects[before:]:
        if str(r.get("clause", "")).startswith(tuple(prefixes)):
            mine.append(r)
        else:
            foreign += 1
            if os.environ.get("VERIF_SHOW_SIBLING"):
                print("SIBLING-CLAUSE", r.get("clause"), json.dumps(r.get("detail"))[:500], flush=True)
    ctx.rejects[before:] = mine
    # the model's own prediction of the exit status is part of the behaviour TLC printed: cross-check the replay
    ctx.notes["workflow"] = {"behaviours": len(cases), "commands": len(events), "rejections_by_other_properties_clauses": foreign,
                             "kinds": {k: sum(1 for e in events if e["cmd"]["kind"] == k) for k in ("annotate", "download", "download-all", "lint", "lint-file", "spdx", "convert-dep5")},
                             "annotate_force_dot_license": sum(1 for e in events if e["cmd"].get("dot")), "annotate_skip_existing": sum(1 for e in events if e["cmd"].get("skip")),
                             "lint_file_exit_1": sum(1 for e in events if e["cmd"]["kind"] == "lint-file" and e["exit"] == 1),
                             "convert_exit_0": sum(1 for e in events if e["cmd"]["kind"] == "convert-dep5" and e["exit"] == 0),
                             "lint_exit_0": sum(1 for e in events if e["cmd"]["kind"] == "lint" and e["exit"] == 0),
                             "download_exit_1": sum(1 for e in events if e["cmd"]["kind"] == "download" and e["exit"] == 1)}
    return {"events": events, "mc_violations": viol}
