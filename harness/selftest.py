"""bin/selftest - the machinery's own regression test (not a property check, nothing here is in MANIFEST.json).

1. The binding is not vacuous: accepted traces are corrupted in ONE recorded field (or one event is dropped) and the
   trace specification must then reject them.
2. No false alarm on behaviour-preserving changes: two harmless refactorings of the repository (a scratch worktree
   outside /repo and /verif, removed afterwards) must leave a handful of quick checks green.

Exit status 0 = all expectations met."""
from __future__ import annotations

import copy
import json
import os
import subprocess
import sys
from pathlib import Path

sys.path.insert(0, os.path.dirname(os.path.abspath(__file__)))
import core  # noqa: E402

VERIF = Path(__file__).resolve().parent.parent
FAILED = []


def expect(name: str, ok: bool, detail: str = ""):
    print(("ok      " if ok else "FAILED  ") + name + (("  - " + detail) if detail else ""), flush=True)
    if not ok:
        FAILED.append(name)


def rejected(ctx, module, cfg, events, **kw) -> list:
    before = len(ctx.rejects)
    ctx.validate(module, cfg, events, **kw)
    out = ctx.rejects[before:]
    del ctx.rejects[before:]
    return out


def trace_level():
    import suitetrace
    import workflow
    ctx = core.Ctx("SELFTEST", "quick", 0)
    ctx.replaying = True
    # --- Workflow: replay a few behaviours, then corrupt one field
    bs = workflow.behaviours(ctx, 12, 4)
    cases = [{"tid": i + 1, "info": b["info"], "present": b["present"], "glob": b["glob"], "sib": b.get("sib", []), "hist": b["hist"], "label": "selftest"}
             for i, b in enumerate(bs)]
    events = [e for c in cases for e in workflow.run_case(c)]
    expect("Workflow: recorded behaviours accepted", not rejected(ctx, "Trace_Workflow", "Trace_Workflow.cfg", events, group_key="tid"))
    ev2 = copy.deepcopy(events)
    tgt = next(e for e in ev2 if e["cmd"]["kind"] == "annotate" and e["exit"] == 0)
    f = sorted(tgt["post"]["info"])[0]
    tgt["post"]["info"][f]["lic"] = []            # as if the header had lost its licences
    r = rejected(ctx, "Trace_Workflow", "Trace_Workflow.cfg", ev2, group_key="tid")
    expect("Workflow: one corrupted observation is rejected", bool(r), ", ".join(sorted({x["clause"] for x in r})))
    ev3 = copy.deepcopy(events)
    tgt = next(e for e in ev3 if e["cmd"]["kind"] == "lint")
    tgt["exit"] = 1 - tgt["exit"]
    r = rejected(ctx, "Trace_Workflow", "Trace_Workflow.cfg", ev3, group_key="tid")
    expect("Workflow: a flipped lint exit status is rejected", any(x["clause"].startswith("C01.") for x in r))
    ev4 = copy.deepcopy(events)
    tgt = next((e for e in ev4 if e["cmd"]["kind"] == "lint-file"), None)
    if tgt is not None:
        tgt["exit"] = 1 - tgt["exit"]
        r = rejected(ctx, "Trace_Workflow", "Trace_Workflow.cfg", ev4, group_key="tid")
        expect("Workflow: a flipped lint-file exit status is rejected", any(x["clause"].startswith("C13.") for x in r))
    ev5 = copy.deepcopy(events)
    tgt = next(e for e in ev5 if e["cmd"]["kind"] == "lint")
    tgt["post"]["sib"] = sorted(set(tgt["post"]["sib"]) | {sorted(tgt["post"]["info"])[0]})[: None] if sorted(tgt["post"]["info"])[0] not in tgt["post"]["sib"] else []
    r = rejected(ctx, "Trace_Workflow", "Trace_Workflow.cfg", ev5, group_key="tid")
    expect("Workflow: a .license sibling that appears during lint is rejected", any(x["clause"].startswith("C15.") for x in r))
    # --- Targets: the decision table replayed, then one observation corrupted
    import targets
    before = len(ctx.rejects)
    tg = targets.stage(ctx, ("C07.", "C11.", "C15.", "crash"), tid0=1)
    expect("Targets: the 175 cells of the decision table are accepted", len(ctx.rejects) == before, f"{len(tg['events'])} cells")
    del ctx.rejects[before:]
    bad = copy.deepcopy(tg["events"])
    tgt = next(e for e in bad if e["where"] == "sibling")
    tgt["where"] = "infile"
    r = rejected(ctx, "Trace_Targets", "Trace_Targets.cfg", bad)
    expect("Targets: a header in the file where the table says sibling is rejected", any(x["clause"].startswith("C07.") for x in r))
    bad = copy.deepcopy(tg["events"])
    tgt = next(e for e in bad if e["c"]["sib"] == "dangling")
    tgt["outside"] = True
    r = rejected(ctx, "Trace_Targets", "Trace_Targets.cfg", bad)
    expect("Targets: a write through a dangling link is rejected", any(x["clause"].startswith("C15.") for x in r))
    import lintfileargs
    before = len(ctx.rejects)
    lf = lintfileargs.stage(ctx, ("C13.", "crash"), tid0=1)
    expect("LintFileArgs: the 42 cells (x 2 second arguments) are accepted", len(ctx.rejects) == before, f"{len(lf['events'])} runs")
    del ctx.rejects[before:]
    bad = copy.deepcopy(lf["events"])
    tgt = next(e for e in bad if e["c"]["what"] == "link-to-covered-bad")
    tgt["target"] = True
    r = rejected(ctx, "Trace_LintFileArgs", "Trace_LintFileArgs.cfg", bad)
    expect("LintFileArgs: a reported link target is rejected", any(x["clause"].startswith("C13.") for x in r))
    import converttable
    before = len(ctx.rejects)
    cv = converttable.stage(ctx, ("C15.", "C16.", "C17.", "crash"), tid0=1)
    expect("ConvertTable: the 42 cells are accepted", len(ctx.rejects) == before, f"{len(cv['events'])} cells")
    del ctx.rejects[before:]
    bad = copy.deepcopy(cv["events"])
    tgt = next(e for e in bad if e["exit"] == 2)
    tgt["rootChanged"] = True
    r = rejected(ctx, "Trace_ConvertTable", "Trace_ConvertTable.cfg", bad)
    expect("ConvertTable: a refusal that changed the project is rejected", any(x["clause"].startswith("C17.") for x in r))
    import roottable
    before = len(ctx.rejects)
    rt = roottable.stage(ctx, ("C14.", "crash"), tid0=1)
    expect("RootTable: the 27 cells are accepted", len(ctx.rejects) == before, f"{len(rt['events'])} cells")
    del ctx.rejects[before:]
    bad = copy.deepcopy(rt["events"])
    tgt = next(e for e in bad if e["seen"] == "above")
    tgt["seen"] = "project"
    r = rejected(ctx, "Trace_RootTable", "Trace_RootTable.cfg", bad)
    expect("RootTable: another directory than the table's is rejected", any(x["clause"].startswith("C14.") for x in r))
    # --- repository-test traces (C15 footprint, C16 exit discipline, C05 matches)
    sev = suitetrace.collect(ctx)
    c15 = suitetrace.for_c15(sev, 1)
    expect("suite traces: the repository's CLI tests are accepted by Footprint.tla",
           not rejected(ctx, "Trace_C15", "Trace_C15.cfg", c15, group_key="tid"), f"{len(c15)} invocations")
    bad = copy.deepcopy(c15)
    tgt = next(e for e in bad if e["cmd"]["kind"] == "lint")
    tgt["created"] = ["stray.cache"]
    r = rejected(ctx, "Trace_C15", "Trace_C15.cfg", bad, group_key="tid")
    expect("suite traces: a file created by lint is rejected", any("read-only" in x["clause"] for x in r))
    c16 = suitetrace.for_c16(sev, 1)
    bad = copy.deepcopy(c16)
    bad[0]["exit"] = 3
    r = rejected(ctx, "Trace_C16", "Trace_C16.cfg", bad)
    expect("suite traces: exit status 3 is rejected", any("undocumented-exit-status" in x["clause"] for x in r))
    api = suitetrace.collect_api(ctx)
    for i, e in enumerate(api):
        e["tid"] = i + 1
    expect("suite traces: matches() calls of the tests are accepted by Glob.tla", not rejected(ctx, "Trace_C05", "Trace_C05.cfg", api))
    bad = copy.deepcopy(api)
    tgt = next(e for e in bad if any(e["obs"]))
    k = e_idx = next(i for i, o in enumerate(tgt["obs"]) if o)
    tgt["obs"][k] = False
    r = rejected(ctx, "Trace_C05", "Trace_C05.cfg", bad)
    expect("suite traces: a flipped matches() answer is rejected", any(x["clause"] == "C05.nothing-missed" for x in r))
    # --- dropping an event: the acceptance count (distinct states = events + 1) catches a trace that is not consumed
    try:
        trunc = copy.deepcopy(c16)
        trunc[3] = {"tid": 4}                      # an event that lost its fields cannot be evaluated
        ctx.validate("Trace_C16", "Trace_C16.cfg", trunc)
        expect("a mangled event stops validation (machinery error, not silence)", False)
    except core.MachineryError:
        expect("a mangled event stops validation (machinery error, not silence)", True)
    except Exception as exc:  # noqa: BLE001
        expect("a mangled event stops validation (machinery error, not silence)", True, type(exc).__name__)


# (refactoring name -> (file, [(old, new)...], checks that must stay green))
MORE_REFACTORINGS = {
    "annotate-reorder-independent-statements": ("src/reuse/cli/annotate.py",
        [("    template, commented = get_template(template_str, project)\n    year = get_year(years, exclude_year)\n",
          "    year = get_year(years, exclude_year)\n    template, commented = get_template(template_str, project)\n")], ("C11", "C07")),
    "download-rename-local": ("src/reuse/download.py",
        [("    url = urljoin(", "    address = urljoin("), ("license from '%s'\", url)", "license from '%s'\", address)"),
         ("urllib.request.urlopen(url)", "urllib.request.urlopen(address)")], ("C19",)),
}
REFACTORINGS = {
    "rename-local": ("src/reuse/covered_files.py", [("    name = path.name\n", "    base_name = path.name\n"),
                                                    ("pattern.fullmatch(name)", "pattern.fullmatch(base_name)"),
                                                    ('name != "REUSE.toml"', 'base_name != "REUSE.toml"')]),
    "equivalent-regex-and-wording": ("src/reuse/extract.py", [("_HEADER_BYTES = 4096", "_HEADER_BYTES = 4 * 1024")]),
}


def refactorings(checks=("C03", "C02", "C12")):
    todo = [(n, rel, subs, checks) for n, (rel, subs) in REFACTORINGS.items()] + [(n, rel, subs, ch) for n, (rel, subs, ch) in MORE_REFACTORINGS.items()]
    for name, rel, subs, checks in todo:
        wt = Path(subprocess.run(["mktemp", "-d", "/tmp/selfwt.XXXXXX"], capture_output=True, text=True).stdout.strip())
        wt.rmdir()
        subprocess.run(["git", "-C", str(core.REPO), "worktree", "add", "-q", "--detach", str(wt), "HEAD"], check=True)
        try:
            p = wt / rel
            s = p.read_text()
            for a, b in subs:
                if a not in s:
                    expect(f"refactoring {name}: anchor present", False, a.strip())
                s = s.replace(a, b)
            p.write_text(s)
            for c in checks:
                ev = VERIF / "evidence" / f"{c}.json"
                keep = ev.read_bytes() if ev.exists() else None
                r = subprocess.run([str(VERIF / "bin" / "check"), c, "--tier", "quick"], env=dict(os.environ, REUSE_VERIF_REPO=str(wt)),
                                   capture_output=True, text=True)
                if keep is not None:
                    ev.write_bytes(keep)
                expect(f"refactoring {name}: {c} stays green", r.returncode == 0 and "VIOLATION" not in r.stdout,
                       (r.stdout.strip().splitlines() or [""])[-1][-120:])
        finally:
            subprocess.run(["git", "-C", str(core.REPO), "worktree", "remove", "--force", str(wt)])


if __name__ == "__main__":
    trace_level()
    if "--fast" not in sys.argv:
        refactorings()
    print("SELFTEST " + ("FAILED: " + ", ".join(FAILED) if FAILED else "passed"))
    sys.exit(1 if FAILED else 0)
