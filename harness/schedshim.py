"""Shim for C14 (and friends): control what a unit test leaves to chance.

* PermScandir   - os.scandir returns directory entries in a seeded permutation
* SchedPool     - multiprocessing.Pool replacement that runs pool.map according to a TLC behaviour of
                  specs/LintPool.tla (walk order, chunk size, which worker takes which chunk), in real
                  forked worker processes, each chunk with a freshly unpickled copy of the callable
* RecordingPool - the real multiprocessing.Pool with N workers; records the task order, the chunk size and,
                  through the audit hook inherited by the workers, which pid opened which file
Enabled only by the harness (REUSE_VERIF_SHIM=1); nothing here is imported by reuse itself."""
from __future__ import annotations

import contextlib
import math
import multiprocessing
import multiprocessing.pool
import os
import pickle
import random
import sys

_real_scandir = os.scandir
_real_Pool = multiprocessing.Pool


class _PermScandir:
    def __init__(self, path, seed):
        with _real_scandir(path) as it:
            self._entries = list(it)
        key = os.fspath(path) if path is not None else "."
        if isinstance(key, bytes):
            key = key.decode("utf-8", "replace")
        random.Random(f"{seed}|{os.path.basename(key)}|{len(self._entries)}").shuffle(self._entries)
        self._i = 0

    def __iter__(self):
        return self

    def __next__(self):
        if self._i >= len(self._entries):
            raise StopIteration
        e = self._entries[self._i]
        self._i += 1
        return e

    def close(self):
        self._entries = []

    def __enter__(self):
        return self

    def __exit__(self, *a):
        self.close()


@contextlib.contextmanager
def permuted_scandir(seed):
    if seed is None:
        yield
        return
    os.scandir = lambda path=".": _PermScandir(path, seed)
    try:
        yield
    finally:
        os.scandir = _real_scandir


class SchedPool:
    """pool.map under a prescribed schedule: order = permutation (1-based indices into the sorted task list),
    cs = chunk size, takes = worker id per chunk (in chunk order)."""

    def __init__(self, sched, log):
        self.sched = sched
        self.log = log

    def __enter__(self):
        return self

    def __exit__(self, *a):
        return False

    def join(self):
        pass

    def close(self):
        pass

    def map(self, fn, iterable, chunksize=None):
        tasks = list(iterable)
        base = sorted(tasks, key=str)
        n = len(base)
        order = [((i - 1) % n) for i in self.sched["order"]][:n] if n else []
        seen, perm = set(), []
        for i in order + list(range(n)):          # extend a shorter model permutation to all n tasks
            if i not in seen and i < n:
                seen.add(i)
                perm.append(i)
        ordered = [base[i] for i in perm]
        cs = max(1, self.sched["cs"])
        chunks = [ordered[i:i + cs] for i in range(0, n, cs)]
        takes = self.sched["takes"]
        nw = max(takes) if takes else 1
        assign = [takes[k % len(takes)] if takes else 1 for k in range(len(chunks))]
        payload = pickle.dumps(fn)
        results = {}
        pipes = []
        for w in range(1, nw + 1):
            mine = [k for k, a in enumerate(assign) if a == w]
            if not mine:
                continue
            r, wfd = os.pipe()
            pid = os.fork()
            if pid == 0:
                os.close(r)
                out = []
                try:
                    for k in mine:
                        f = pickle.loads(payload)          # a fresh copy of the callable per chunk, as pool.map does
                        out.append((k, [f(x) for x in chunks[k]]))
                    data = pickle.dumps(("ok", out))
                except BaseException as exc:  # noqa: BLE001
                    data = pickle.dumps(("err", repr(exc)))
                with os.fdopen(wfd, "wb") as fh:
                    fh.write(data)
                os._exit(0)
            os.close(wfd)
            pipes.append((w, pid, r, mine))
        for w, pid, r, mine in pipes:
            with os.fdopen(r, "rb") as fh:
                data = fh.read()
            os.waitpid(pid, 0)
            status, out = pickle.loads(data)
            if status != "ok":
                raise RuntimeError("scheduled worker failed: " + out)
            for k, res in out:
                results[k] = res
            self.log.append({"w": w, "chunks": mine})
        flat = []
        for k in range(len(chunks)):
            flat.extend(results[k])
        self.log.append({"order": [str(x) for x in ordered], "cs": cs})
        return flat


_AUDIT = {"dir": None, "root": None, "installed": False}


def _audit_hook(event, args):
    d = _AUDIT["dir"]
    if d is None or event != "open":
        return
    try:
        p = args[0]
        if not isinstance(p, (str, bytes, os.PathLike)):
            return
        s = os.fspath(p)
        if isinstance(s, bytes):
            s = s.decode("utf-8", "replace")
        s = os.path.abspath(s)
        if s.startswith(_AUDIT["root"]):
            fd = os.open(os.path.join(d, f"{os.getpid()}.log"), os.O_WRONLY | os.O_APPEND | os.O_CREAT, 0o644)
            os.write(fd, (s + "\n").encode())
            os.close(fd)
    except Exception:  # noqa: BLE001
        pass


def start_audit(logdir: str, root: str):
    _AUDIT["dir"] = logdir
    _AUDIT["root"] = os.path.abspath(root) + os.sep
    if not _AUDIT["installed"]:
        sys.addaudithook(_audit_hook)
        _AUDIT["installed"] = True


def stop_audit():
    _AUDIT["dir"] = None


class LoggedCall:
    """Picklable wrapper around the callable given to pool.map: appends '<task>' to <logdir>/<pid>.log
    before processing it (this is the Process(w, f) step of LintPool, observed in the worker itself)."""

    def __init__(self, fn, logdir):
        self.fn = fn
        self.logdir = logdir

    def __call__(self, task):
        fd = os.open(os.path.join(self.logdir, f"{os.getpid()}.log"), os.O_WRONLY | os.O_APPEND | os.O_CREAT, 0o644)
        os.write(fd, (str(task) + "\n").encode())
        os.close(fd)
        return self.fn(task)


class RecordingPool:
    """The real pool with a chosen number of workers; remembers the task list and chunk size."""

    def __init__(self, nworkers, log, logdir=None):
        self.pool = _real_Pool(nworkers)
        self.n = nworkers
        self.log = log
        self.logdir = logdir

    def __enter__(self):
        self.pool.__enter__()
        return self

    def __exit__(self, *a):
        return self.pool.__exit__(*a)

    def join(self):
        return self.pool.join()

    def map(self, fn, iterable, chunksize=None):
        tasks = list(iterable)
        cs, extra = divmod(len(tasks), self.n * 4)
        if extra:
            cs += 1
        self.log.append({"order": [str(x) for x in tasks], "cs": max(cs, 1), "workers": self.n,
                         "parent": os.getpid()})
        if self.logdir:
            fn = LoggedCall(fn, self.logdir)
        return self.pool.map(fn, tasks, chunksize)


@contextlib.contextmanager
def pool_as(factory):
    multiprocessing.Pool = factory
    try:
        yield
    finally:
        multiprocessing.Pool = _real_Pool
