"""Concretisation of abstract projects (specs/Project.tla) and projection of observations.

No oracle lives here: `materialise` writes what the abstract project says, `lint_obs` parses
`reuse lint --json` with a tool-independent reader into the abstract vocabulary."""
from __future__ import annotations

import json
import os
import random
import shutil
import subprocess
import sys
from pathlib import Path

import core

# ------------------------------------------------------------------------------------------
# SPDX list facts (read from the bundled JSON data files directly, not through reuse's code)

_SPDX = None


def spdx_classes() -> dict:
    global _SPDX
    if _SPDX is None:
        res = core.REPO / "src" / "reuse" / "resources"
        lic = json.load(open(res / "licenses.json"))["licenses"]
        exc = json.load(open(res / "exceptions.json"))["exceptions"]
        m = {}
        for x in lic:
            m[x["licenseId"]] = "dep" if x.get("isDeprecatedLicenseId") else "cur"
        for x in exc:
            m[x["licenseExceptionId"]] = "dep" if x.get("isDeprecatedLicenseId") else "exc"
        _SPDX = m
    return _SPDX


_IDSTRING = set("abcdefghijklmnopqrstuvwxyzABCDEFGHIJKLMNOPQRSTUVWXYZ0123456789-.")


def classify(ident: str) -> str:
    """cur / dep / exc from the SPDX lists; ref = 'LicenseRef-' + SPDX idstring; else unk."""
    m = spdx_classes()
    if ident in m:
        return m[ident]
    if ident.startswith("LicenseRef-") and len(ident) > 11 and set(ident[11:]) <= _IDSTRING:
        return "ref"
    return "unk"


# ------------------------------------------------------------------------------------------
# fault injection (the sandbox runs as root: permissions do not bite)

_FAULT_PATHS: set = set()
_HOOKED = False


def _audit(event, args):
    if event == "open" and _FAULT_PATHS:
        p = args[0]
        if isinstance(p, (str, bytes, os.PathLike)):
            try:
                s = os.fspath(p)
                if isinstance(s, bytes):
                    s = s.decode("utf-8", "replace")
                if os.path.abspath(s) in _FAULT_PATHS:
                    raise PermissionError(13, "Permission denied (injected)", s)
            except PermissionError:
                raise
            except Exception:  # noqa: BLE001
                pass


def set_faults(paths):
    global _HOOKED
    _FAULT_PATHS.clear()
    _FAULT_PATHS.update(os.path.abspath(str(p)) for p in paths)
    if _FAULT_PATHS and not _HOOKED:
        sys.addaudithook(_audit)
        _HOOKED = True


# ------------------------------------------------------------------------------------------
# materialisation

STYLES = [
    ("# ", "", None), ("// ", "", None), ("-- ", "", None), (";; ", "", None), ("% ", "", None),
    ("", "", ("/*", " * ", " */")), ("", "", ("<!--", "", "-->")), ("REM ", "", None), (".. ", "", None),
    ("", "", None),
]


def header_text(info: dict, rnd: random.Random, extra_bad: bool = False, style=None) -> str:
    lines = list(info.get("cop", []))
    lines += ["SPDX-License-Identifier: " + x["text"] for x in info.get("lic", [])]
    if extra_bad or info.get("bad"):
        lines.append("SPDX-License-Identifier: MIT AND AND OR")
    if not lines:
        return ""
    pre, _post, block = style if style is not None else rnd.choice(STYLES)
    if block:
        start, mid, end = block
        out = [start] + [mid + ln for ln in lines] + [end]
    else:
        out = [pre + ln for ln in lines]
    return "\n".join(out) + "\n"


def _mkparents(path: Path):
    path.parent.mkdir(parents=True, exist_ok=True)


def materialise(p: dict, root: Path, rnd: random.Random, outside: Path | None = None) -> dict:
    """Create the tree.  Returns {'faults': [abs paths]}."""
    root.mkdir(parents=True, exist_ok=True)
    faults = []
    salt = rnd.random()     # files with identical abstract content get identical bytes within one project
    # directories that are symlinks: create target outside, link inside
    made_links = set()
    for f in p["files"]:
        comps = f["path"]
        for k, a in enumerate(f.get("anc", [])):
            if a.get("symlink"):
                link = root.joinpath(*comps[:k + 1])
                if str(link) in made_links:
                    continue
                tgt = (outside or root.parent / (root.name + "-outside")) / ("dir-" + "-".join(comps[:k + 1]))
                tgt.mkdir(parents=True, exist_ok=True)
                _mkparents(link)
                if not link.exists():
                    os.symlink(tgt, link)
                made_links.add(str(link))
    for f in p["files"]:
        path = root.joinpath(*f["path"])
        _mkparents(path)
        t = f["type"]
        body = f.get("body", "print('x')\n")
        if t == "empty":
            path.write_bytes(b"")
        elif t == "symlink":
            tgt = (outside or root.parent / (root.name + "-outside")) / ("file-" + "-".join(f["path"]))
            tgt.parent.mkdir(parents=True, exist_ok=True)
            tgt.write_text(header_text({"cop": ["SPDX-FileCopyrightText: 1999 Link Target"],
                                        "lic": [{"text": "MIT"}]}, rnd) + body)
            if not path.exists() and not path.is_symlink():
                os.symlink(tgt, path)
                # one abstract class, three concrete shapes: a live link, a dangling one, a link to a directory
                shape = sum(map(ord, "/".join(f["path"]))) % 3
                if shape == 1:
                    tgt.unlink()
                elif shape == 2:
                    tgt.unlink()
                    tgt.mkdir()
                    (tgt / f"inside-{abs(hash(tgt.name)) % 10**8}.py").write_text("print('reached through a link')\n")
        elif t == "binary":
            # tags inside binary content must not be read
            path.write_bytes(b"\x89BIN\x00\x01\x02\xff\xfe\nSPDX-License-Identifier: WTFPL\n"
                             b"SPDX-FileCopyrightText: 1998 Inside Binary\n\x00\x00" + os.urandom(16))
        else:
            key = json.dumps([salt, f["own"], body], sort_keys=True)
            r2 = random.Random(key)
            head = header_text(f["own"], r2)
            if head and r2.random() < 0.15:
                # the same declarations, but inside a snippet that starts beyond the 4 KiB header window: a file with a
                # snippet marker is read in full, so what the file declares is unchanged
                filler = "".join(f"line {n} of a long preamble without any tag in it, just text to fill space\n" for n in range(70))
                path.write_text(filler + "# SPDX-SnippetBegin\n" + head + body + "# SPDX-SnippetEnd\n")
            else:
                path.write_text(head + body)
        d = f.get("dot")
        if d and d.get("present"):
            lic = Path(str(path) + ".license")
            lic.write_text(header_text(d, rnd, style=("", "", None)))
        if f.get("unreadable"):
            faults.append(str(path))
    for en in p.get("licfiles", []):
        path = root / "LICENSES" / en["rel"]
        _mkparents(path)
        content = en.get("content", "Licence text of " + en["name"] + "\n")
        if outside is not None and sum(map(ord, en["rel"])) % 5 == 2:
            # a licence text may be a symbolic link to a regular file (a shared COPYING, say): it provides the identifier all the same
            tgt = outside / ("licence-text-" + en["rel"].replace("/", "_"))
            tgt.parent.mkdir(parents=True, exist_ok=True)
            tgt.write_text(content)
            os.symlink(tgt, path)
        else:
            path.write_text(content)
    for t in p.get("tomls", []):
        import tomlkit
        tables = []
        for tb in t["tables"]:
            globs = ["".join(g) for g in tb["globs"]]
            d = {"path": globs if len(globs) != 1 or rnd.random() < 0.3 else globs[0], "precedence": tb["prec"]}
            if tb["cop"]:
                d["SPDX-FileCopyrightText"] = tb["cop"] if len(tb["cop"]) != 1 or rnd.random() < 0.3 else tb["cop"][0]
            if tb["lic"]:
                texts = [x["text"] for x in tb["lic"]]
                d["SPDX-License-Identifier"] = texts if len(texts) != 1 or rnd.random() < 0.3 else texts[0]
            tables.append(d)
        path = root.joinpath(*t["dir"]) / "REUSE.toml"
        _mkparents(path)
        path.write_text(tomlkit.dumps({"version": 1, "annotations": tables}))
    if p.get("dep5"):
        out = ["Format: https://www.debian.org/doc/packaging-manuals/copyright-format/1.0/",
               "Upstream-Name: proj", "Upstream-Contact: Someone <s@example.com>", "Source: https://example.com", ""]
        for pg in p["dep5"]:
            out.append("Files: " + pg["patstr"])
            out.append("Copyright: " + "\n           ".join(pg["cop"]))
            out.append("License: " + " AND ".join(x["text"] for x in pg["lic"]) if len(pg["lic"]) > 1
                       else "License: " + pg["lic"][0]["text"])
            out.append("")
        path = root / ".reuse" / "dep5"
        _mkparents(path)
        path.write_text("\n".join(out))
    return {"faults": faults}


# ------------------------------------------------------------------------------------------
# observation


def _rel(path: str, root: Path) -> str:
    p = Path(path)
    if not p.is_absolute():
        return p.as_posix()          # LICENSES/ entries are reported relative to the root already
    try:
        return p.relative_to(root).as_posix()
    except ValueError:
        try:
            return Path(os.path.relpath(p, root)).as_posix()
        except ValueError:
            return p.as_posix()


EMPTY_OBS = {"exit": -1, "compliant": False, "files": [], "missing": [], "bad": [], "unused": [], "deprecated": [],
             "noext": [], "used": [], "nocop": [], "nolic": [], "readerr": [],
             "counts": {"total": -1, "withcop": -1, "withlic": -1}, "crash": ""}


def lint_obs(root: Path, args: list | None = None, cwd=None, faults=(), runner=None, env=None) -> dict:
    """Run `reuse [--root root] lint --json` and project its JSON."""
    set_faults(faults)
    try:
        run = runner or core.run_reuse
        kw = {"env": env} if env else {}
        r = run([*(args if args is not None else ["--root", str(root), "--no-multiprocessing"]), "lint", "--json"],
                cwd=cwd, **kw)
    finally:
        set_faults(())
    obs = json.loads(json.dumps(EMPTY_OBS))
    obs["exit"] = r["exit"]
    if r["exc"]:
        obs["crash"] = r["exc"][-600:]
        return obs
    if r["exit"] not in (0, 1):
        obs["crash"] = "exit %s: %s" % (r["exit"], (r["err"] or r["out"])[-400:])
        return obs
    try:
        rep = json.loads(r["out"])
    except ValueError:
        obs["crash"] = "unparseable JSON output: " + r["out"][:300]
        return obs
    return project_report(rep, root, obs)


def project_report(rep: dict, root: Path, obs: dict | None = None) -> dict:
    obs = obs if obs is not None else json.loads(json.dumps(EMPTY_OBS))
    nc = rep["non_compliant"]
    obs["compliant"] = bool(rep["summary"]["compliant"])
    for f in rep["files"]:
        items = [{"kind": "cop", "val": c["value"], "src": c["source"] or "", "st": c["source_type"] or ""}
                 for c in f["copyrights"]]
        items += [{"kind": "lic", "val": c["value"], "src": c["source"] or "", "st": c["source_type"] or ""}
                  for c in f["spdx_expressions"]]
        obs["files"].append({"path": f["path"], "items": items})
    obs["missing"] = [{"id": k, "paths": sorted(_rel(x, root) for x in v)} for k, v in nc["missing_licenses"].items()]
    obs["bad"] = [{"id": k, "paths": sorted(_rel(x, root) for x in v)} for k, v in nc["bad_licenses"].items()]
    obs["unused"] = sorted(nc["unused_licenses"])
    obs["deprecated"] = sorted(nc["deprecated_licenses"])
    obs["noext"] = sorted(nc["licenses_without_extension"])
    obs["used"] = sorted(rep["summary"]["used_licenses"])
    obs["nocop"] = sorted(_rel(x, root) for x in nc["missing_copyright_info"])
    obs["nolic"] = sorted(_rel(x, root) for x in nc["missing_licensing_info"])
    obs["readerr"] = sorted(_rel(x, root) for x in nc["read_errors"])
    s = rep["summary"]
    obs["counts"] = {"total": s["files_total"], "withcop": s["files_with_copyright_info"],
                     "withlic": s["files_with_licensing_info"]}
    return obs


def ensure_cls(p: dict) -> dict:
    """Fill p['cls'] with the class of every identifier text that occurs in the project."""
    cls = dict(p.get("cls") or {})

    def tree(t):
        if "key" in t:
            for s in (t["key"], t["base"]):
                cls.setdefault(s, classify(s))
        elif t["op"] == "WITH":
            tree(t["l"])
            tree(t["x"])
        else:
            tree(t["l"])
            tree(t["r"])

    def info(i):
        for x in i.get("lic", []):
            tree(x["tree"])

    for f in p["files"]:
        info(f["own"])
        info(f["dot"])
    for t in p.get("tomls", []):
        for tb in t["tables"]:
            info(tb)
    for pg in p.get("dep5", []):
        info(pg)
    for en in p.get("licfiles", []):
        for s in (en["name"], en["stem"]):
            cls.setdefault(s, classify(s))
    cls.setdefault("MIT", "cur")
    p["cls"] = cls
    return p


def run_project_case(case: dict) -> dict:
    """case: {tid, p, checks, label, seed, [args]} -> trace event."""
    rnd = random.Random(case.get("seed", 0))
    d = core.scratch_dir("proj-")
    try:
        root = d / "root"
        p = ensure_cls(case["p"])
        if case.get("twins"):
            # every plain covered text file gets a sibling declaring exactly the same: whatever is reported for one file
            # (a missing licence, a bad one, no copyright) is then owed for two files under the same identifier
            taken = {f["pathstr"] for f in p["files"]}
            for f in list(p["files"]):
                tw = f["path"][:-1] + ["twin-of-" + f["path"][-1]]
                ts = "/".join(tw)
                if f.get("ncls") != "plain" or f["type"] != "text" or f.get("unreadable") or ts in taken or f["dot"]["present"]:
                    continue
                g = json.loads(json.dumps(f))
                g.update(path=tw, pathstr=ts, pchars=list(ts))
                p["files"].append(g)
                taken.add(ts)
        m = materialise(p, root, rnd, outside=d / "outside")
        if case.get("git"):
            # a Git work tree: everything tracked except what .gitignore says; raw extra files (e.g. broken configuration
            # in an ignored directory) are written as given
            for rel, content in case.get("raw_files", {}).items():
                fp = root / rel
                fp.parent.mkdir(parents=True, exist_ok=True)
                fp.write_text(content)
            env = dict(os.environ, GIT_CONFIG_GLOBAL="/dev/null", GIT_CONFIG_SYSTEM="/dev/null", HOME=str(d))
            gitdir = root
            if case.get("git_monorepo"):
                # the project is a sub-directory of a larger work tree whose top-level .gitmodules registers a submodule BELOW
                # the project: its files are not the project's (no --include-submodules here)
                gitdir = d
                (root / "vendor-sm").mkdir(exist_ok=True)
                (root / "vendor-sm" / "thirdparty.c").write_text("int third_party;\n")
                (d / ".gitmodules").write_text(f'[submodule "vendor-sm"]\n\tpath = {root.name}/vendor-sm\n\turl = https://example.com/v.git\n')
            subprocess.run(["git", "init", "-q"], cwd=gitdir, env=env, check=True, capture_output=True)
            if case.get("git_exclude"):        # ignore rules of the repository that are not part of the work tree
                with open(gitdir / ".git" / "info" / "exclude", "a") as fh:
                    fh.write(case["git_exclude"])
            subprocess.run(["git", "add", "-A"], cwd=root, env=env, check=False, capture_output=True)
        if case.get("under"):
            # the whole abstract project sits below a Meson subproject directory of a larger tree, and lint is told to include
            # subprojects: paths and sources are reported with that prefix, everything else is as for the project alone
            pre = case["under"].strip("/") + "/"
            outer = d / "outer"
            (outer / pre).parent.mkdir(parents=True)
            shutil.move(str(root), str(outer / pre.rstrip("/")))
            obs = lint_obs(outer, args=["--root", str(outer), "--no-multiprocessing", "--include-meson-subprojects"])
            def strip(x):
                return x[len(pre):] if isinstance(x, str) and x.startswith(pre) else x
            for f_ in obs["files"]:
                f_["path"] = strip(f_["path"])
                for it in f_["items"]:
                    it["src"] = strip(it["src"])
            for key in ("missing", "bad"):
                for en in obs[key]:
                    en["paths"] = sorted(strip(x) for x in en["paths"])
            for key in ("nocop", "nolic", "readerr"):
                obs[key] = sorted(strip(x) for x in obs[key])
            return {"tid": case["tid"], "p": p, "checks": case["checks"], "label": case.get("label", ""), "obs": obs}
        if case.get("locale_c") and not m["faults"]:
            # the same project linted by an interpreter whose locale is not UTF-8; every REUSE.toml carries a non-ASCII comment
            for t in root.rglob("REUSE.toml"):
                if t.is_file() and not t.is_symlink():
                    t.write_text(t.read_text(encoding="utf-8") + "\n# caf\u00e9 \u00a9 \u5c71\u7530\n", encoding="utf-8")
            obs = lint_obs(root, runner=core.run_reuse_subprocess,
                           env={"LC_ALL": "C", "LANG": "C", "PYTHONUTF8": "0", "PYTHONCOERCECLOCALE": "0"})
        else:
            obs = lint_obs(root, faults=m["faults"])
        return {"tid": case["tid"], "p": p, "checks": case["checks"], "label": case.get("label", ""), "obs": obs}
    finally:
        shutil.rmtree(d, ignore_errors=True)
