"""Regenerates MANIFEST.json from the table below (kept in one place so it is always valid)."""
import json
import os
import sys

HERE = os.path.dirname(os.path.dirname(os.path.abspath(__file__)))
BASE = json.load(open("/root/.vp/BASELINE.json"))["cmd"] if os.path.exists("/root/.vp/BASELINE.json") else ""

CHECKS = {
    "C12": dict(
        technique="TLA+ scanner state machine (R) vs transcribed recursive filter (M) model-checked by TLC; "
                  "TLC-enumerated token sequences replayed into extract_reuse_info / lint --json; TLC trace validation",
        text="TLC proves M |= R for every token sequence up to the bound and judges every recorded run of the real "
             "extractor (all sequences up to the replay bound in four renderings, plus seeded longer ones and "
             "whole-file runs through `reuse lint --json` that straddle the 4 KiB window) against R; the yes/no question "
             "annotate asks about a text (contains_reuse_info, `annotate --skip-existing`) must have the block-free text's answer too.",
        note="Trusts TLC, the token renderer (tokens separated by one blank; values compared modulo runs of blanks) and, "
             "for sequences that are not 'clean', the tool's own tag reader on block-free text (C02's subject).",
        ref="5/C12"),
    "C05": dict(
        technique="TLC explores the product of subset-construction automata (R narrow / R wide / items parsed from the "
                  "regular expression the real code compiled) per glob: language inclusion for paths of any length; "
                  "mechanism model Translate |= R; TLC trace validation of matches() and lint --json answers",
        text="For every well-formed glob up to the bound (TLC-enumerated), multi-glob annotations and seeded long globs, "
             "TLC decides Narrow(g) <= L(compiled matcher) <= Wide(g) for ALL paths by reachability over the automata "
             "product, and separately judges the real matcher's answers on all short and seeded longer paths, through "
             "the API and through REUSE.toml + `reuse lint --json`. Every AnnotationsItem.matches() call made by the repository's own test-suite is recorded (pytest plugin) and judged by the same two readings.",
        note="The unbounded result holds for the automaton items parsed from AnnotationsItem._paths_regex.pattern; that "
             "the items mean what Python's re means (anchoring, DOTALL) is covered by the bounded direct route only. "
             "If the pattern cannot be parsed the check degrades to the bounded route and says so in the evidence.",
        ref="5/C05"),
    "C04": dict(
        technique="TLA+ requirement InfoOf (Project.tla) vs sequential mechanism model MInfoOf (Precedence.tla) "
                  "model-checked by TLC over the complete case space; TLC prints each case's abstract project, which is "
                  "materialised and linted; TLC trace validation of the attributed items and their sources",
        text="TLC checks M |= R for every combination own x .license x chain of up to three REUSE.toml files (and dep5) "
             "within the bound, and judges, for every one of those cases plus TLC-sampled deeper/two-table chains, the "
             "exact set of (value, source path, source type) items that `reuse lint --json` reports.",
        note="Trusts TLC, the materialiser and the JSON projection; glob forms in tables are restricted to those with no "
             "C05 subtlety; the lenient reading of 'override' is stated in the evidence assumptions.",
        ref="5/C04"),
    "C06": dict(
        technique="TLA+ set-algebra requirement (Project.tla Missing/Unused/Bad/Deprecated/NoExt) vs transcribed "
                  "mechanism (MMissingOf, MUnused, ...) model-checked by TLC; TLC-enumerated class x use x provision "
                  "cases concretised with real SPDX identifiers; TLC trace validation of lint --json",
        text="TLC checks M |= R and the mutual consistency of the five sets on every class x use x provision cell, and "
             "judges the five reported sets (plus used_licenses and per-identifier file lists) for every cell with "
             "several real identifiers per class, TLC-sampled two-identifier projects and, thorough, every identifier "
             "of the bundled SPDX lists.",
        note="Identifier classes come from the bundled SPDX JSON files read directly; LicenseRef- well-formedness is the "
             "SPDX idstring grammar; the lenient cell (unprovided LicenseRef- may also be 'bad') is stated.",
        ref="5/C06"),
    "C01": dict(
        technique="TLA+ compliance predicate and defect ledger (Lint.tla) model-checked by TLC (verdict sound and "
                  "complete w.r.t. the ledger, M |= R); all defect combinations materialised with fault injection; TLC "
                  "trace validation of exit status, compliant flag and all eight category sets",
        text="Every combination of per-file information states and inventory defects of the compliant skeleton (complete), "
             "plus TLC-sampled projects of the Inventory and Precedence generators, is linted for real and judged by TLC "
             "for exit status, summary flag, and exact equality of every category (nothing else reported, non-covered "
             "distractor files never shown). In addition Workflow.tla (the tool as a state machine over what the project declares: annotate / download / download --all / lint / spdx / convert-dep5 with their documented effect and exit status; Monotone, ReadersReadOnly, ComplianceReachable, DownloadAllExact model-checked from every initial state) is replayed: TLC-simulated command sequences run on a real project and the abstract state observed after every command must be the one the specification allows.",
        note="A share of the cases runs in a fresh interpreter whose locale is not UTF-8 (LC_ALL=C, UTF-8 mode and locale coercion off) with text outside ASCII in the files: the locale is a hidden parameter. " "Read errors are injected through a sys.addaudithook shim (root ignores permissions); trusts TLC, the "
             "materialiser and the JSON projection.",
        ref="5/C01"),
    "C13": dict(
        technique="TLA+ view-agreement requirement over opaque labels (Trace_C13.tla: equality of families of item sets, "
                  "exit statuses, summary counters); project states enumerated / sampled by TLC (Lint.tla, Inventory.tla); "
                  "TLC trace validation of lint --json/--plain/--lines/--quiet and lint-file runs",
        text="For every enumerated project state the four lint formats and lint-file (single files, all files, mixed "
             "subsets with directories, three working directories and path spellings) are run; TLC checks equal exit "
             "statuses, that plain and lines name exactly the JSON's offenders per category, that the JSON counters "
             "match its own lists, that --quiet is silent and that lint-file reports exactly the per-file problems of "
             "the covered files among its arguments (symbolic links to covered files are named too: a link names nothing). In addition Workflow.tla "
             "behaviours with `lint-file F` between the modifying commands are replayed: its exit status must be the verdict on the named files (LintFileVsLint). LintFileArgs.tla (what lint-file makes of one argument: 14 kinds x 3 spellings, M |= R) is replayed cell by cell.",
        note="Text formats are parsed structurally (section / paragraph / bullet; path: message [id]) with opaque labels; "
             "the reference for all views is the same state's lint --json, whose own correctness is C01's subject.",
        ref="5/C13"),
    "C18": dict(
        technique="TLA+ requirement for the document (Spdx.tla: bijections, truth-table equivalence Equiv, Project!InfoOf "
                  "for per-file identifiers and notices); TLC-enumerated / sampled expression trees and project states; "
                  "TLC trace validation of `reuse spdx` parsed by a strict tag-value reader",
        text="Every expression tree of depth <= 1 (with its AND/OR dual in a second file), TLC-sampled deeper trees and "
             "project states from Lint.tla / Inventory.tla are materialised and exported; TLC checks one File section "
             "per covered file and no other, unique SPDXIDs matched one-to-one by DESCRIBES, true SHA-1, exact "
             "LicenseInfoInFile / FileCopyrightText, LicenseConcluded logically equivalent to the conjunction of the "
             "file's expressions under every truth assignment, and every LicenseRef- with its text. In addition Workflow.tla behaviours (spdx interleaved with annotate / download / convert-dep5) are replayed: the File sections of every document must be exactly what lint attributes to the files at that point.",
        note="A share of the cases runs in a fresh interpreter whose locale is not UTF-8 (LC_ALL=C, UTF-8 mode and locale coercion off) with text outside ASCII in the files: the locale is a hidden parameter. " "SHA-1 values come from hashlib (environment fact); the tag-value and expression readers are written for this "
             "check; header fields are only required to be present.",
        ref="5/C18"),
    "C14": dict(
        technique="TLA+ model of the lint pipeline as a concurrent system (LintPool.tla: walk order, chunking, worker "
                  "interleavings; ScheduleFree, EachFileOnce, termination) model-checked by TLC; TLC -simulate schedules "
                  "replayed into the real code by a replay pool in forked workers; recorded executions of the real "
                  "multiprocessing pool validated against LintPool by TLC; equality of normalised outputs over hidden "
                  "parameters",
        text="TLC explores every walk order, chunking and worker interleaving of the model; the same behaviours drive the "
             "real code (spec -> code), and real pool runs with 1..16 workers are recorded in the workers and checked to "
             "be LintPool behaviours (code -> spec).  For every tree all runs - serial, scheduled, real pool, permuted "
             "directory listings, five root/cwd spellings, project location, PYTHONHASHSEED values - must give the same "
             "normalised lint and SPDX output and exit status; trees with more covered files than processors; and a tree linted, edited and "
             "linted again by ONE process must give what a fresh interpreter gives for the edited contents (the history of the process is a hidden parameter). RootTable.tla (which directory is the project: version control x working directory x --root, 27 cells, M |= R) is replayed cell by cell.",
        note="Hash seeds and listing orders are sampled (seeded); pool.map semantics (fresh callable per chunk, results in "
             "input order) are transcribed in harness/schedshim.py; equality with R itself is C01's subject.",
        ref="5/C14"),
    "C08": dict(
        technique="TLA+ frame relation AnnotateRel (Header.tla) on abstract line sequences vs mechanism model MAnnotate "
                  "(find first REUSE comment, shebang extraction, placement) model-checked by TLC for every body up to "
                  "the bound per style class; the same bodies rendered in every concrete comment style, annotated for "
                  "real; TLC trace validation of before/after line sequences, BOM, line endings, final newline",
        text="For every sequence of up to MaxLines line kinds (code, indented, blank, whitespace-only, own / foreign / "
             "tagged comments, multi-line blocks, first-line declarations and a repeated copy of them, closer-plus-code) "
             "in every named comment style, replace and --no-replace, TLC decides that all lines outside one replaced "
             "tagged comment block are kept in order byte for byte, the new block is contiguous, blank-line and "
             "trailing-blank changes touch the header only, BOM and first-line declaration stay first, and the line-ending "
             "convention and final newline are kept.",
        note="A share of the cases runs in a fresh interpreter whose locale is not UTF-8 (LC_ALL=C, UTF-8 mode and locale coercion off) with text outside ASCII in the files: the locale is a hidden parameter. " "Lines are matched by exact bytes (unique payloads); tag lines re-rendered inside the new header count as "
             "header material; one open finding (KF-C08-1, closer followed by code) is matched by a TLA+ signature.",
        ref="5/C08"),
    "C20": dict(
        technique="TLA+ requirement (Copyright.tla: Text for the ten documented prefixes, MergeOK) vs merge mechanism model "
                  "MMergeAll (all tie-breaks) model-checked by TLC over all notice sets up to the bound; TLC-enumerated / "
                  "sampled notice sets and the full prefix x year-form x holder product run through the API and through "
                  "annotate + lint; TLC trace validation",
        text="TLC proves that every result the merge mechanism can produce keeps all holders, one line each, with a range "
             "covering all stated years (all notice sets up to the bound), and judges the real builder / reader / merger "
             "on the full product of ten prefixes x six year forms x a holder grammar, on verbatim notices, and on "
             "TLC-enumerated and sampled notice sets through both the Python API and the CLI.",
        note="A share of the cases runs in a fresh interpreter whose locale is not UTF-8 (LC_ALL=C, UTF-8 mode and locale coercion off) with text outside ASCII in the files: the locale is a hidden parameter. " "Prefix texts come from the manual page; notices are tokenised by a reader written for this check; non-ASCII "
             "text is encoded as <U+XXXX> for TLC.",
        ref="5/C20"),
    "C07": dict(
        technique="TLA+ state machine of annotate over what a file declares (Annotate.tla: After, Monotone, "
                  "FailedUntouched, Idempotent) model-checked by TLC; TLC-generated bundles crossed with every entry of "
                  "the file-type tables read off the code; TLC trace validation (Trace_Annotate, outcome-conditional "
                  "step relation)",
        text="For every entry of the extension / file-name tables, every --style, --single-line / --multi-line where "
             "supported, .license variants, templates, all bundles (prefixes, year forms, several holders / licences / "
             "contributors) and pre-existing contents, and for invocations over several files, TLC checks that after a "
             "run reporting success the linter reads exactly what the file declared before plus the request, per file. In addition Workflow.tla (the tool as a state machine over what the project declares: annotate / download / download --all / lint / spdx / convert-dep5 with their documented effect and exit status; Monotone, ReadersReadOnly, ComplianceReachable, DownloadAllExact model-checked from every initial state) is replayed: TLC-simulated command sequences run on a real project and the abstract state observed after every command must be the one the specification allows. Targets.tla (the decision table: kind of file x what FILE.license is x dot-license option x --style -> header in the file / in the sibling / nowhere, exit status, fate of the other files; M |= ten rules R model-checked) is replayed cell by cell on the real tool.",
        note="The linter's view is taken from `reuse lint --json` and the tool's own reader (contributors); requests are concretised from small pools; files that the linter never lists (excluded names, files left empty) are outside the domain.",
        ref="5/C07"),
    "C10": dict(
        technique="same model and trace specification as C07 (Annotate.tla Idempotent; Trace_Annotate C10 clauses); "
                  "identical command repeated 2 (quick) / 4 (thorough) times on every file type, style and option flavour, "
                  "LF / CRLF / CR bodies",
        text="Every entry of the file-type tables x bodies free of other tags {empty, code, own comment, first-line "
             "declaration} x LF/CRLF/CR x bundles, every --style, --multi-line / --single-line where supported and "
             "--force-dot-license are annotated repeatedly with the identical command; TLC checks that every repetition "
             "after a success leaves file and .license sibling byte-identical and that the requested notice occurs once.",
        note="The linter's view is taken from `reuse lint --json` and the tool's own reader (contributors); requests are concretised from small pools; files that the linter never lists (excluded names, files left empty) are outside the domain. --no-replace is by definition additive and excluded from the re-run clause.",
        ref="5/C10"),
    "C09": dict(
        technique="TLA+ state machine of annotate (Annotate.tla: action property Monotone over all histories, with failing "
                  "subsets) model-checked by TLC; TLC-generated and -simulated histories of option bundles replayed step by "
                  "step into the real command; the trace specification carries the running model (each step is judged "
                  "against the linter's view recorded before it)",
        text="All histories of up to 2 (quick) / 3 (thorough) bundles over holders, licences, contributors, prefixes, year "
             "forms, --merge-copyrights and --skip-existing, plus TLC-simulated longer ones, on ten comment styles x seven "
             "initial contents x LF/CRLF/CR with seeded --multi-line / --no-replace / template flavours: after every step "
             "that changed the file TLC checks that nothing declared before was dropped and the request was added; under "
             "--merge-copyrights that all holders remain and every year stated before is still covered.",
        note="The linter's view is taken from `reuse lint --json` and the tool's own reader (contributors); requests are concretised from small pools. Every seventh history moves the header into a .license sibling at one step "
             "(--force-dot-license): what the file declared must be carried over; Workflow.tla behaviours (annotate with --force-dot-license / --skip-existing "
             "between the other commands) are replayed as well.",
        ref="5/C09"),
    "C11": dict(
        technique="Annotate.tla with failing subsets (FailedUntouched, ExitReflectsFailure) model-checked by TLC; every "
                  "(file set, failing subset) of one invocation generated by TLC and given concrete failure classes, usage "
                  "errors and .license options; tree snapshots; TLC trace validation (Trace_Annotate C11 clauses)",
        text="For every subset of failing files in an invocation over up to three files (both argument orders, all "
             ".license options), for information-dropping templates (plain and pre-commented), documented usage errors "
             "(mutually exclusive options, unsupported or mixed line modes, missing template, nothing requested) and unknown "
             "file types at every position, TLC checks: a file that did not end up complete is byte-identical and has no new "
             "sibling, files without a reason to fail are complete, exit status 0 iff nothing failed, usage errors give "
             "exit 2 with an untouched tree, lossy templates are refused. Targets.tla (the decision table: kind of file x what FILE.license is x dot-license option x --style -> header in the file / in the sibling / nowhere, exit status, fate of the other files; M |= ten rules R model-checked) is replayed cell by cell on the real tool.",
        note="The linter's view is taken from `reuse lint --json` and the tool's own reader (contributors); requests are concretised from small pools. Which command lines are usage errors / which templates cannot yield a valid header is "
             "stated by the generator from the documentation.",
        ref="5/C11"),
    "C02": dict(
        technique="TLA+ line grammar (TagLine.tla: Render / Denotes) vs string-level mechanism model of the reader (Read: "
                  "shortest value before a run of terminators, strip, frame rule) model-checked by TLC with the comment-style "
                  "table and terminator set bound from the code (generated StyleTable.tla); TLC-enumerated / sampled tag "
                  "lines given to extract_reuse_info and, inside files, to lint --json; TLC trace validation",
        text="For every comment style x form x frame x six tag spellings x value classes (including values that end in the "
             "mirrored prefix) x special endings (complete) and TLC-sampled lines with indentation, trailing blanks and "
             "stacked terminators, TLC proves Read(Render(c)) = value on the model and judges what the real reader returns, "
             "on LF/CRLF/CR text and in files before / beyond the 4 KiB window, with the snippet marker at byte offsets "
             "around multiples of 4096, and with a poisoned line.",
        note="Style table and terminators are re-read from the code at every run; values ending in a terminator or in blank + "
             "mirrored prefix are outside the domain; non-ASCII values are covered by C20 / C07.",
        ref="5/C02"),
    "C19": dict(
        technique="TLA+ state machine of download with one action per critical section of put_license_in_file and a failure "
                  "branch at every step (Download.tla: NeverOverwrites, NoPartialFile, OnlyLicenseFiles, RefNeedsNoNetwork, "
                  "exit status, termination) model-checked by TLC; every initial state replayed against a scripted network; "
                  "TLC trace validation of tree snapshots, network log and exit status",
        text="Every combination of pre-existing LICENSES/ entries, request set, per-identifier network outcome (ok / HTTP "
             "error / connection refused / connection reset, timeout or short read while the body is read) and --source (quick: a seeded sample) is run for real with urlopen replaced by a stub, "
             "from the root, a sub-directory, LICENSES/, the LICENSES/ of a neighbouring checkout and outside, with and without --root / Git, a share in a C-locale interpreter with licence texts outside ASCII, repeated invocations, "
             "--all and --output; TLC checks that no existing file changes, only the prescribed paths appear, LicenseRef- "
             "needs no network, a failed transfer leaves no file, content is the complete body, later identifiers are still "
             "handled, the exit status tells failure, and lint reports no missing licence after a successful --all. In addition Workflow.tla (the tool as a state machine over what the project declares: annotate / download / download --all / lint / spdx / convert-dep5 with their documented effect and exit status; Monotone, ReadersReadOnly, ComplianceReachable, DownloadAllExact model-checked from every initial state) is replayed: TLC-simulated command sequences run on a real project and the abstract state observed after every command must be the one the specification allows.",
        note="Network = urllib.request.urlopen replaced by a scripted stub (in the harness process, or in the fresh interpreter started through harness/stubnet_main.py); an "
             "outside sentinel directory is part of every snapshot.",
        ref="5/C19"),
    "C17": dict(
        technique="TLA+ requirement for the dep5 wildcard language (Dep5Glob.tla) compared by TLC, through the product of "
                  "subset-construction automata, with the matcher the real code compiles for the converted glob (language "
                  "equality for paths of any length); step model of the command with fault points (ConvertDep5.tla) "
                  "model-checked; TLC trace validation of lint before/after real conversions and of file-system event order",
        text="Every well-formed dep5 pattern up to the bound (and seeded longer ones) is converted by the real code and the "
             "two matchers are compared as languages by TLC; whole projects (several paragraphs and patterns, multi-line "
             "copyright, comments, in-file information to aggregate with) are converted for real and TLC checks that every "
             "path keeps exactly its copyright lines and expressions apart from the source's name, that REUSE.toml is "
             "written before dep5 is removed, that a failed write keeps dep5, and that the command refuses without dep5. In addition Workflow.tla (the tool as a state machine over what the project declares, convert-dep5 interleaved with annotate / download / lint; ConversionKeepsAttribution, OnlyConvertMovesGlob model-checked) is replayed on a real project with the abstract state compared after every command. ConvertTable.tla (preconditions of convert-dep5: what .reuse/dep5 is x what stands where REUSE.toml goes, 42 cells, M |= R) is replayed cell by cell.",
        note="A share of the cases runs in a fresh interpreter whose locale is not UTF-8 (LC_ALL=C, UTF-8 mode and locale coercion off) with text outside ASCII in the files: the locale is a hidden parameter. " "Two open findings (KF-C17-1 '?', KF-C17-2 '*/') are matched by TLA+ signatures; the dep5 side of the language "
             "comparison is the Debian specification as transcribed in Dep5Tok.",
        ref="5/C17"),
    "C15": dict(
        technique="TLA+ model of the whole tool over a file system of project + outside sentinel (Reuse.tla with Footprint.tla: "
                  "OutsideFootprintUntouched, SentinelNeverTouched, ReadersChangeNothing) model-checked by TLC; every "
                  "command sequence of the model replayed on a real Git work tree; TLC trace validation of metadata snapshots "
                  "against the documented footprint, including traces recorded from the repository's own CLI tests",
        text="All sequences of one command and (quick: a seeded sample of) two commands - thorough: sampled triples - over "
             "lint in four formats, lint-file, spdx, spdx -o, supported-licenses, --help, --version, annotate on files, a "
             "binary and a symlink leaving the project, annotate -r on the root, on directories with look-alike siblings and "
             "on a symlinked directory, convert-dep5 and download (also --source onto an existing file) run - from the root, from a project subdirectory and from an unrelated watched directory - on a tree with "
             "an outside sentinel, an ignored file, LICENSES/, .reuse/dep5 and a read-only file; TLC checks that everything "
             "that changed (content, mode, mtime, link target) lies in the command's documented footprint and that nothing "
             "outside the project changed. Every CLI invocation of the repository's tests/test_cli_*.py is recorded by a pytest "
             "plugin (snapshots around it) and judged by the same specification. Targets.tla (the decision table: kind of file x what FILE.license is x dot-license option x --style -> header in the file / in the sibling / nowhere, exit status, fate of the other files; M |= ten rules R model-checked) is replayed cell by cell on the real tool. ConvertTable.tla (preconditions of convert-dep5: what .reuse/dep5 is x what stands where REUSE.toml goes, 42 cells, M |= R) is replayed cell by cell.",
        note="The covered set for `annotate -r` is the tool's own lint listing before the command (C03's subject); .git/ is "
             "part of the snapshots and Git's cached stat information is made stale before every command; the network is a stub that always succeeds. "
             "Workflow.tla behaviours are replayed as well (which command may change declarations, LICENSES/, siblings, the project-wide declaration).",
        ref="5/C15"),
    "C16": dict(
        technique="TLA+ classification of the REUSE.toml shape matrix and of further malformed-input classes into valid / "
                  "invalid / grey with the required outcome (Config.tla: Class, ClassOf, Outcome), enumerated by TLC (all "
                  "single and double deviations); every cell written as real TOML / bytes and run through every sub-command; "
                  "TLC trace validation of exit status, escaped exceptions and diagnostics",
        text="Every key x value-shape cell of REUSE.toml (one deviation: complete x 7 sub-commands; two deviations: quick a "
             "seeded sample, thorough all) and 18 other classes (broken / non-UTF-8 TOML and dep5, duplicate keys, nested bad "
             "REUSE.toml, dep5 together with REUSE.toml, .gitmodules with an empty or non-UTF-8 path, ignored / covered files whose names are not UTF-8, several files failing in one annotate invocation, covered files with NULs / invalid UTF-8 / a 1 MB line / an unparseable "
             "expression, unreadable and vanishing files, non-UTF-8 LicenseRef text and .license, broken template) are fed "
             "to lint (3 formats), spdx, lint-file, annotate, download --all and convert-dep5; TLC checks: no exception "
             "escapes, exit status in {0,1,2}, invalid configuration gives exit 2 and a message naming the file, valid "
             "input is not rejected, an unreadable covered file is a read error or lacks information and the run completes. "
             "Every CLI invocation made by the repository's tests/test_cli_*.py is recorded and held to the exit-status "
             "discipline too. ConvertTable.tla (preconditions of convert-dep5: what .reuse/dep5 is x what stands where REUSE.toml goes, 42 cells, M |= R) is replayed cell by cell.",
        note="Exceptions are observed at the click entry point in-process and, for a sample and for inputs whose bytes reach the terminal, in the real "
             "executable (started through harness/realmain.py, whose sys.excepthook tags exceptions nobody handled); read faults are injected by an audit hook; the valid/invalid/grey table is this check's reading "
             "of REUSE specification 3.3.",
        ref="5/C16"),
    "C03": dict(
        technique="TLA+ requirement CoverReq (three-valued: must / must not / unpinned) vs walk-with-pruning mechanism "
                  "model-checked by TLC; TLC-enumerated directory-context x name-class x type x VCS-wish nodes built as "
                  "real trees and Git repositories, `git check-ignore` as environment oracle; TLC trace validation of "
                  "the examined set via lint, spdx, lint-file and annotate -r",
        text="Every single-node tree over 16 directory contexts x 31 name classes x 4 file types (complete), Git "
             "repositories over context x tracking/ignore wish, and TLC-sampled six-node trees are examined through four "
             "commands; TLC decides for each that no covered file is skipped and no excluded file (or file outside the "
             "requested directory) is touched.",
        note="Git's own check-ignore answer is trusted as the meaning of 'ignored'; one open finding (KF-C03-1) is matched "
             "by a TLA+ signature; Mercurial/Jujutsu/Pijul are not installed and not exercised.",
        ref="5/C03"),
}

NOT_YET = {}


def main():
    props = [json.loads(l)["id"] for l in open(os.path.join(HERE, "properties.jsonl"))]
    checks = []
    for pid in props:
        if pid not in CHECKS:
            continue
        c = CHECKS[pid]
        checks.append({
            "property_id": pid,
            "quick_cmd": f"./bin/check {pid} --tier quick",
            "thorough_cmd": f"./bin/check {pid} --tier thorough",
            "evidence_file": f"evidence/{pid}.json",
            "replay_cmd_template": f"./bin/check {pid} --replay {{path}}",
            "engine": "tlc",
            "level_claimed": {"category": "model_checking", "text": c["text"], "design_ref": c["ref"]},
            "level_note": c["note"],
            "technique": c["technique"],
        })
    na = [{"property_id": p, "reason": NOT_YET.get(p, "check not built yet in this round (planned, see DESIGN.md section 9); not claimed until it runs green")}
          for p in props if p not in CHECKS]
    m = {
        "version": 1,
        "setup_cmd": "./bin/setup",
        "hooks": {
            "guard": "REUSE_VERIF_SHIM",
            "enable": "no source hooks: the harness observes the tool through its CLI / public functions and a shim "
                      "inside /verif (sys.addaudithook, stdlib wrappers) enabled by REUSE_VERIF_SHIM=1; /repo is imported "
                      "from its working tree (editable install / PYTHONPATH=/repo/src)",
            "baseline_off_cmd": BASE or "cd /repo && /venv/bin/python -m pytest -ra -q -p no:cacheprovider",
            "source_commits": [],
            "add_only": True,
        },
        "engines": [
            {"name": "tlc", "path": "/usr/local/bin/tlc", "serves_properties": [c["property_id"] for c in checks],
             "kind_free_text": "TLC 1.8 explicit-state model checker: model checking of the mechanism models against the "
                               "requirement operators, enumeration of abstract cases, and trace validation of recorded "
                               "executions of the real code (specs/*.tla)"},
            {"name": "replay-harness", "path": "harness/", "serves_properties": [c["property_id"] for c in checks],
             "kind_free_text": "Python: concretises TLC's abstract cases, runs reuse-tool (in-process CLI / subprocess), "
                               "projects observations into the abstract vocabulary; contains no oracle"},
        ],
        "checks": checks,
        "not_applicable": na,
        "notes": "All verdicts are computed by TLC from specs/*.tla; known findings are listed in known_findings.json.",
    }
    json.dump(m, open(os.path.join(HERE, "MANIFEST.json"), "w"), indent=1)
    print("MANIFEST.json:", len(checks), "checks,", len(na), "not claimed")


if __name__ == "__main__":
    main()
