"""Entry point: bin/check <Cxx> [--tier quick|thorough] [--replay FILE]."""
from __future__ import annotations

import argparse
import importlib
import os
import sys
import traceback

sys.path.insert(0, os.path.dirname(os.path.abspath(__file__)))
import core  # noqa: E402


def main() -> int:
    ap = argparse.ArgumentParser()
    ap.add_argument("prop")
    ap.add_argument("--tier", default=os.environ.get("VERIF_TIER", "quick"), choices=["quick", "thorough"])
    ap.add_argument("--replay", default=None)
    a = ap.parse_args()
    seed = int(os.environ.get("VERIF_SEED", "0") or 0)
    try:
        mod = importlib.import_module(f"props.{a.prop.lower()}")
        ctx = core.Ctx(a.prop, a.tier, seed)
        if a.replay:
            return mod.replay(ctx, a.replay)
        return mod.run(ctx)
    except core.MachineryError as exc:
        print(f"MACHINERY-ERROR property={a.prop}: {exc}", file=sys.stderr, flush=True)
        return 2
    except Exception:  # noqa: BLE001
        traceback.print_exc()
        print(f"MACHINERY-ERROR property={a.prop}: unexpected exception", file=sys.stderr, flush=True)
        return 2


if __name__ == "__main__":
    sys.exit(main())
