"""Traces recorded from the repository's own test-suite: every CLI invocation the maintainers' tests make
(tests/test_cli_*.py, run from the current working tree of the repository) becomes one event
(testtrace_plugin.py); C15 judges them with Footprint.tla, C16 with Config!Outcome."""
from __future__ import annotations

import json
import os
import shutil
import subprocess
import sys
from pathlib import Path

import core

HERE = Path(__file__).resolve().parent


def collect(ctx: core.Ctx) -> list:
    work = ctx.scratch / "suite"
    shutil.rmtree(work, ignore_errors=True)
    work.mkdir()
    out = work / "events.ndjson"
    env = dict(os.environ, REUSE_VERIF_TESTTRACE=str(out), REUSE_VERIF_TESTTRACE_BASE=str(work / "bt"), PYTHONDONTWRITEBYTECODE="1",
               PYTHONPATH=f"{HERE}:{core.REPO}/src", PYTHONHASHSEED="0")
    tests = sorted(str(p) for p in (Path(core.REPO) / "tests").glob("test_cli_*.py"))
    if not tests:
        raise core.MachineryError("the repository has no tests/test_cli_*.py")
    p = subprocess.run([sys.executable, "-m", "pytest", "-q", "-p", "no:cacheprovider", "-p", "testtrace_plugin",
                        f"--basetemp={work / 'bt'}", "-o", "addopts=", *tests],
                       cwd=core.REPO, env=env, capture_output=True, text=True, timeout=1800)
    if not out.exists():
        raise core.MachineryError("the repository's CLI tests recorded no event:\n" + (p.stdout + p.stderr)[-1500:])
    events = [json.loads(ln) for ln in out.read_text().splitlines() if ln.strip()]
    ctx.notes["repository_tests"] = {"files": len(tests), "events": len(events),
                                     "pytest_summary": (p.stdout.strip().splitlines() or [""])[-1][:200]}
    shutil.rmtree(work, ignore_errors=True)
    return events


def for_c15(events: list, tid0: int) -> list:
    out = []
    for i, e in enumerate(events):
        cmd = dict(e["cmd"])
        if cmd["kind"].startswith("other:") or e["parsed"]["odd"]:
            continue
        if cmd["kind"] == "download" and cmd["targets"] == ["*"]:
            # --all: the identifiers are whatever the project lacks; the footprint is still confined to LICENSES/<id>.txt
            cmd["targets"] = sorted(p[len("LICENSES/"):-4] for p in e["created"] if p.startswith("LICENSES/") and p.endswith(".txt"))
        out.append({"tid": tid0 + i, "k": 1, "label": json.dumps({"repository-test": e["test"], "args": e["args"]}),
                    "cmd": cmd, "covered": e["files"], "symlinks": e["symlinks"], "changed": e["changed"], "created": e["created"],
                    "removed": e["removed"], "sentinel": e["sentinel"], "exit": e["exit"], "crash": e["crash"]})
    return out


def for_c16(events: list, tid0: int) -> list:
    return [{"tid": tid0 + i, "label": json.dumps({"repository-test": e["test"]}), "other": "repository_test", "class": "grey",
             "devs": [], "cmd": " ".join(e["args"])[:200], "exit": e["exit"], "crashed": bool(e["crash"]), "namesFile": False,
             "mustFlag": False, "readProblem": False, "tail": (e["crash"] or e["out"])[-200:]} for i, e in enumerate(events)]


def collect_api(ctx: core.Ctx) -> list:
    """Every AnnotationsItem.matches(path) call made by the repository's tests (whole suite) -> Trace_C05 events."""
    work = ctx.scratch / "suite-api"
    shutil.rmtree(work, ignore_errors=True)
    work.mkdir()
    out = work / "calls.ndjson"
    env = dict(os.environ, REUSE_VERIF_APITRACE=str(out), PYTHONDONTWRITEBYTECODE="1", PYTHONPATH=f"{HERE}:{core.REPO}/src",
               PYTHONHASHSEED="0")
    env.pop("REUSE_VERIF_TESTTRACE", None)
    p = subprocess.run([sys.executable, "-m", "pytest", "-q", "-p", "no:cacheprovider", "-p", "testtrace_plugin",
                        f"--basetemp={work / 'bt'}", "-o", "addopts=", "tests"],
                       cwd=core.REPO, env=env, capture_output=True, text=True, timeout=1800)
    if not out.exists():
        raise core.MachineryError("the repository's tests recorded no matches() call:\n" + (p.stdout + p.stderr)[-1500:])
    groups: dict = {}
    for ln in out.read_text().splitlines():
        c = json.loads(ln)
        g = groups.setdefault(json.dumps(c["globs"]), {"globs": c["globs"], "calls": {}, "tests": set()})
        g["calls"][c["path"]] = c["result"]
        g["tests"].add(c["test"])
    events = []
    for g in groups.values():
        paths = sorted(g["calls"])
        events.append({"globs": [list(x) for x in g["globs"]], "paths": [list(x) for x in paths],
                       "obs": [g["calls"][x] for x in paths], "via": "repository-tests", "impl": [],
                       "tests": sorted(g["tests"])[:3]})
    ctx.notes["repository_tests_api"] = {"annotation_items": len(events), "matches_calls": sum(len(e["paths"]) for e in events),
                                         "pytest_summary": (p.stdout.strip().splitlines() or [""])[-1][:200]}
    shutil.rmtree(work, ignore_errors=True)
    return events
