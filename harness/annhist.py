"""Replay of annotate histories (C07, C09, C10, C11): concretise a history of abstract
requests on a small project, run `reuse annotate` step by step, and record for every file what the
tool's own linter reads before and after, plus content hashes.  No verdicts here."""
from __future__ import annotations

import hashlib
import json
import shutil
from pathlib import Path

import annmodel
import core
from props.c20 import PFX, asc, parse_notice

TEMPLATES = {
    "full": "{% for copyright_line in copyright_lines %}\n{{ copyright_line }}\n{% endfor %}\n"
            "{% for contributor_line in contributor_lines %}\nSPDX-FileContributor: {{ contributor_line }}\n{% endfor %}\n\n"
            "{% for expression in spdx_expressions %}\nSPDX-License-Identifier: {{ expression }}\n{% endfor %}\n"
            "\nThis file is part of Example.\n",
    "nocon": "{% for copyright_line in copyright_lines %}\n{{ copyright_line }}\n{% endfor %}\n\n"
             "{% for expression in spdx_expressions %}\nSPDX-License-Identifier: {{ expression }}\n{% endfor %}\n",
    "droplic": "{% for copyright_line in copyright_lines %}\n{{ copyright_line }}\n{% endfor %}\n\nAll rights reserved.\n",
    "dropcop": "{% for expression in spdx_expressions %}\nSPDX-License-Identifier: {{ expression }}\n{% endfor %}\n",
    "dropall": "Licensed under the terms in the LICENSE file.\n",
    # keeps every licence but only the FIRST copyright line: loses information exactly when a file ends up with two holders
    "firstcop": "{% for copyright_line in copyright_lines[:1] %}\n{{ copyright_line }}\n{% endfor %}\n\n"
                "{% for expression in spdx_expressions %}\nSPDX-License-Identifier: {{ expression }}\n{% endfor %}\n",
}
COMMENTED = ("# Example header\n#\n{% for copyright_line in copyright_lines %}\n# {{ copyright_line }}\n{% endfor %}\n"
             "{% for contributor_line in contributor_lines %}\n# SPDX-FileContributor: {{ contributor_line }}\n{% endfor %}\n#\n"
             "{% for expression in spdx_expressions %}\n# SPDX-License-Identifier: {{ expression }}\n{% endfor %}\n")


def sha(p: Path) -> str:
    if p.is_symlink():
        return "link"
    if not p.exists():
        return "absent"
    return hashlib.sha1(p.read_bytes()).hexdigest()[:16]


def tree_snapshot(root: Path) -> dict:
    snap = {}
    for x in sorted(root.rglob("*")):
        rel = x.relative_to(root).as_posix()
        if x.is_symlink():
            snap[rel] = "link"
        elif x.is_file():
            snap[rel] = sha(x)
        else:
            snap[rel] = "dir"
    return snap


def initial_content(kind: str, st: dict | None) -> bytes:
    """Pre-existing content of a file; st = concrete style facts (None: plain text lines)."""
    code = "value1 := 1;\nvalue2 := 2;\n"
    if kind == "empty":
        return b""
    if kind == "rawtags":    # a text file of a type that takes no comments (SVG, CSV, JSON...) whose text carries tags all the same
        return ("<!-- SPDX-FileCopyrightText: 1985 Drawn By Hand -->\n<!-- SPDX-License-Identifier: Zlib -->\n" + code).encode()
    if kind == "bomcode":    # a byte order mark in front of ordinary code
        return b"\xef\xbb\xbf" + code.encode()
    if kind == "josecode":   # a header that already names a holder with non-ASCII letters
        return ("# SPDX-FileCopyrightText: 2019 Jos\u00e9 Garc\u00eda\n# SPDX-License-Identifier: Zlib\n\n" + code).encode() if st is None or st.get("name") == "python" else \
               ((lambda t: st["single"] + st["ias"] + t) if st["hasSingle"] else (lambda t: st["ms"] + " " + t + " " + st["me"]))("SPDX-FileCopyrightText: 2019 Jos\u00e9 Garc\u00eda").encode() + b"\n\n" + code.encode()
    if kind == "longcode":   # more than 4 KiB of code below the place where the header goes
        return "".join(f"value{n} := {n} + {n};  -- line {n} of a long file\n" for n in range(1, 130)).encode()
    if kind == "binary7":    # binary by content (control characters throughout) although every byte is valid UTF-8
        return bytes([1, 2, 3, 4, 5, 6, 7, 8, 14, 15, 16, 17, 18, 19, 20, 21, 22, 23, 24, 25, 26, 27, 28, 29, 30, 31, 127, 0]) * 40 + b"end"
    if kind == "latin1":     # a text file in a legacy encoding: not valid UTF-8, still text
        return ("value1 := 1;\nvalue2 := 2;\n").encode() + "note = 'caf\u00e9 M\u00fcnchen'\n".encode("latin-1") * 3
    if kind == "binary":     # not text, whatever the name says: the header belongs into a .license sibling
        return b"\x89PNG\r\x1a\x00\x00\x00IHDR" + bytes(x for x in range(256) if x != 10) + b"\xff\xfe\x00tail"
    if kind == "code" or st is None:
        return code.encode()
    cm = (lambda t: st["single"] + st["ias"] + t) if st["hasSingle"] else (lambda t: st["ms"] + " " + t + " " + st["me"])
    if kind == "comment":
        return (cm("just a note") + "\n" + code).encode()
    if kind == "shebang" and st["shebangs"]:
        return (st["shebangs"][0] + "/usr/bin/env run\n" + code).encode()
    if kind == "foreign":
        fm = annmodel.foreign_marker(st)
        return (code + fm + "SPDX-FileCopyrightText: 1980 Foreign Holder\n" + fm + "SPDX-License-Identifier: ISC\n").encode()
    if kind.startswith("ownheader"):
        who = {"ownheader": "1990 Old Holder", "ownheaderA": "1991 Alpha Holder", "ownheaderB": "1992 Beta Holder",
               "ownheaderC": "1993 Gamma Holder"}[kind]
        return (cm("SPDX-FileCopyrightText: " + who) + "\n" + cm("SPDX-License-Identifier: Zlib") + "\n\n" + code).encode()
    if kind == "owncon":
        return (cm("SPDX-FileCopyrightText: 1990 Old Holder") + "\n" + cm("SPDX-FileContributor: Old Contributor") + "\n"
                + cm("SPDX-License-Identifier: Zlib") + "\n\n" + code).encode()
    if kind == "ignoredheader":  # a comment with a tag inside an ignore block (documentation of the tags, say): not a header the linter reads
        return (cm("REUSE-IgnoreStart") + "\n\n" + cm("SPDX-License-Identifier: Zlib") + "\n" + cm("(example)") + "\n\n" + cm("REUSE-IgnoreEnd") + "\n" + code).encode()
    if kind == "badexprbody":    # a string in the code that looks like a tag with an expression nobody can parse
        return (code + "note := 'SPDX-License-Identifier: not (valid';\n").encode()
    if kind == "conly":          # a header that names a contributor and nothing else
        return (cm("SPDX-FileContributor: Old Contributor") + "\n\n" + code).encode()
    if kind == "badexpr":
        return (cm("SPDX-License-Identifier: MIT AND AND") + "\n" + code).encode()
    return code.encode()


def observe(root: Path, name: str, req_texts: list) -> dict:
    """What the tool's own linter reads for root/name, and hashes of the file and its .license sibling."""
    f = root / name
    lic = Path(str(f) + ".license")
    out = {"cop": [], "lic": [], "con": [], "notices": [], "sha": sha(f), "licsha": sha(lic), "blocks": 0, "listed": False,
           "beyondWindow": False}
    r = core.run_reuse(["--root", str(root), "--no-multiprocessing", "lint", "--json"])
    if r["exc"] or r["exit"] not in (0, 1):
        out["cop"] = ["?lint-failed: " + asc((r["exc"] or r["err"])[-120:])]
        return out
    rep = json.loads(r["out"])
    for fr in rep["files"]:
        if fr["path"] == name:
            out["listed"] = True
            out["cop"] = sorted(asc(c["value"]) for c in fr["copyrights"])
            out["lic"] = sorted(asc(c["value"]) for c in fr["spdx_expressions"])
            out["notices"] = [parse_notice_asc(c) for c in out["cop"]]
    carrier = lic if lic.exists() else f
    try:
        text = carrier.read_bytes().decode("utf-8", errors="replace")
    except OSError:
        text = ""
    try:
        from reuse.extract import reuse_info_of_file      # the tool's own reader, with its own decoding
        out["con"] = sorted(asc(c) for c in reuse_info_of_file(carrier, carrier, root).contributor_lines) if carrier.exists() else []
        if not out["con"]:
            from reuse.extract import extract_reuse_info, decoded_text_from_binary
            with open(carrier, "rb") as fh:       # (reuse_info_of_file drops contributors when there is nothing else)
                out["con"] = sorted(asc(c) for c in extract_reuse_info(decoded_text_from_binary(fh)).contributor_lines)
    except Exception:  # noqa: BLE001 - unparseable expression: the file contributes nothing
        out["con"] = []
    atext = asc(text)
    out["blocks"] = max([atext.count(t) for t in req_texts] + [0])
    # does any tag of the file lie beyond the 4 KiB window the linter reads (files without snippet marker)?
    try:
        raw = carrier.read_bytes() if carrier.exists() else b""
    except OSError:
        raw = b""
    last = max(raw.rfind(b"SPDX-License-Identifier:"), raw.rfind(b"SPDX-FileCopyrightText:"), raw.rfind(b"SPDX-FileContributor:"))
    out["beyondWindow"] = last >= 4096 and b"SPDX-SnippetBegin" not in raw
    return out


def parse_notice_asc(line_asc: str) -> dict:
    raw = line_asc.replace("<U+00A9>", "©")
    n = parse_notice(raw)
    n["holder"] = asc(n["holder"]) if "<U+" not in n["holder"] else n["holder"]
    return n


def req_options(req: dict) -> list:
    opts = []
    for h in req["holders"]:
        opts += ["--copyright", h]
    for v in req.get("verb", []):
        opts += ["--copyright", v]
    for x in req["lic"]:
        opts += ["--license", x]
    for c in req["con"]:
        opts += ["--contributor", c]
    if req["holders"] or req.get("verb"):
        if req.get("pfx"):
            opts += ["--copyright-prefix", req["pfx"].replace("_", "-")]
    if req["years"]:
        for y in req["years"]:
            opts += ["--year", str(y)]
    else:
        opts.append("--exclude-year")
    return opts


def req_record(req: dict, flavour: dict) -> dict:
    ys = sorted(int(y) for y in req["years"])
    cop = [{"pfx": req.get("pfx") or "spdx", "y1": ys[0] if ys else 0, "y2": ys[-1] if ys else 0, "holder": asc(h)}
           for h in req["holders"]]
    return {"cop": cop, "verb": [asc(v) for v in req.get("verb", [])], "lic": list(req["lic"]), "con": [asc(c) for c in req["con"]],
            "merge": bool(flavour.get("merge")), "skipExisting": bool(flavour.get("skip_existing")),
            "skipUnrecognised": bool(flavour.get("skip_unrecognised")),
            "rendersCon": flavour.get("template") not in ("nocon", "droplic", "dropcop", "dropall", "pydrop", "pydroplic", "pydropcop", "literal", "pytwoblocks", "firstcop"),
            "noReplace": bool(flavour.get("no_replace")),
            "twoBlocks": flavour.get("template") == "pytwoblocks"}     # an already-commented template with an EMPTY line between its blocks


def flavour_options(fl: dict) -> list:
    o = []
    if fl.get("style"):
        o += ["--style", fl["style"]]
    if fl.get("multi_line"):
        o.append("--multi-line")
    if fl.get("single_line"):
        o.append("--single-line")
    if fl.get("no_replace"):
        o.append("--no-replace")
    if fl.get("merge"):
        o.append("--merge-copyrights")
    if fl.get("skip_existing"):
        o.append("--skip-existing")
    if fl.get("skip_unrecognised"):
        o.append("--skip-unrecognised")
    if fl.get("template"):
        o += ["--template", fl["template"]]
    if fl.get("dot") == "force":
        o.append("--force-dot-license")
    if fl.get("dot") == "fallback":
        o.append("--fallback-dot-license")
    for x in fl.get("extra", []):
        o.append(x)
    return o


def run_history(case: dict) -> list:
    d = core.scratch_dir("ann-")
    events = []
    try:
        root = d / "root"
        root.mkdir()
        tdir = root / ".reuse" / "templates"
        tdir.mkdir(parents=True)
        for k, v in TEMPLATES.items():
            (tdir / f"{k}.jinja2").write_text(v)
        (tdir / "pycommented.commented.jinja2").write_text(COMMENTED)
        (tdir / "pydrop.commented.jinja2").write_text("# Example header without any information\n#\n# All rights reserved.\n")
        (tdir / "pydropcop.commented.jinja2").write_text(
            "# Fixed notice of the company, no holder of the file\n#\n{% for expression in spdx_expressions %}\n"
            "# SPDX-License-Identifier: {{ expression }}\n{% endfor %}\n")
        (tdir / "literal.jinja2").write_text(
            "Copyright ACME Corp. All rights reserved.\n{% for copyright_line in copyright_lines %}\n{{ copyright_line }}\n{% endfor %}\n\n"
            "{% for expression in spdx_expressions %}\nSPDX-License-Identifier: {{ expression }}\n{% endfor %}\nSPDX-License-Identifier: Zlib\n")
        (tdir / "pytwoblocks.commented.jinja2").write_text(
            "{% for copyright_line in copyright_lines %}\n# {{ copyright_line }}\n{% endfor %}\n\n"
            "{% for expression in spdx_expressions %}\n# SPDX-License-Identifier: {{ expression }}\n{% endfor %}\n")
        (tdir / "pydroplic.commented.jinja2").write_text(
            "{% for copyright_line in copyright_lines %}\n# {{ copyright_line }}\n{% endfor %}\n#\n# Licence: see LICENSE\n")
        styles = {s["name"]: s for s in annmodel.style_table()}
        for f in case["files"]:
            p = root / f["name"]
            p.parent.mkdir(parents=True, exist_ok=True)
            if f.get("bytes_hex") is not None:
                p.write_bytes(bytes.fromhex(f["bytes_hex"]))
            else:
                data = initial_content(f["kind"], styles.get(f.get("style_name") or ""))
                p.write_bytes(data.replace(b"\n", f.get("eol", "\n").encode()))
            if f.get("dotlicense") is not None:
                Path(str(p) + ".license").write_text(f["dotlicense"])
        prev_cmd = None
        for k, step in enumerate(case["steps"], 1):
            req, fl = step["req"], step.get("flavour", {})
            rr = req_record(req, fl)
            req_texts = []
            for n in rr["cop"]:
                yt = "" if n["y1"] == 0 else (str(n["y1"]) if n["y1"] == n["y2"] else f"{n['y1']} - {n['y2']}")
                req_texts.append(asc(PFX[n["pfx"]]) + (" " + yt if yt else "") + " " + n["holder"])
            if not req_texts:        # (what marks "our" header block: the requested notices; failing those, the other tags)
                req_texts = ["SPDX-FileContributor: " + c for c in rr["con"]] or ["SPDX-License-Identifier: " + x for x in rr["lic"]]
            names = step["targets"]
            pre = {n: observe(root, n, req_texts) for n in names}
            snap0 = tree_snapshot(root)
            # what is named on the command line may be directories (with --recursive) while `names` are the files observed
            cmd = [*req_options(req), *flavour_options(fl), *[str(root / n) for n in step.get("cli_targets", names)]]
            if step.get("locale_c"):
                import annmodel as _am
                r = core.run_reuse_subprocess(["--root", str(root), "annotate", *cmd], env=_am.C_LOCALE)
            elif step.get("hashseed") is not None:
                # the order in which annotate visits its files follows the string hash seed: a fresh interpreter per seed
                r = core.run_reuse_subprocess(["--root", str(root), "annotate", *cmd], env={"PYTHONHASHSEED": str(step["hashseed"])})
            else:
                r = core.run_reuse(["--root", str(root), "annotate", *cmd])
            snap1 = tree_snapshot(root)
            post = {n: observe(root, n, req_texts) for n in names}
            fmeta = {f["name"]: f for f in case["files"]}
            ev = {"tid": case["tid"], "k": k, "label": case["label"], "crash": (r["exc"] or "")[-500:],
                  "exit": r["exit"], "req": rr, "expect": step.get("expect", "any"), "sameAsPrev": cmd == prev_cmd, "treeUnchanged": snap0 == snap1,
                  "files": [{"name": n, "mustSucceed": bool(step.get("must", {}).get(n, False)),
                             "mustFail": bool(step.get("mustfail", {}).get(n, False)),
                             "unrecognised": bool(fmeta.get(n, {}).get("unrecognised")),
                             "pre": pre[n], "post": post[n]} for n in names],
                  "out": asc((r["out"] + r["err"])[-300:]), "cmd": [asc(c.replace(str(root), "<root>")) for c in cmd]}
            events.append(ev)
            prev_cmd = cmd
        return events
    finally:
        shutil.rmtree(d, ignore_errors=True)
